#!/usr/bin/env python3
"""Regenerates MANIFEST.json from checks/*.json + claims.json (run by hand after adding a check)."""
import json, glob, os, subprocess
V = "/verif"
props = [json.loads(l) for l in open(f"{V}/properties.jsonl")]
claims = json.load(open(f"{V}/claims.json"))   # id -> {level, text, note, technique, design_ref} or {"na": reason}
hooks = subprocess.run("git -C /repo log --format=%H --grep='^verif:' ", shell=True, capture_output=True, text=True).stdout.split()
m = {
 "version": 1,
 "setup_cmd": "cd /verif/engine && GOFLAGS=-mod=vendor GOPROXY=off GOSUMDB=off GOTOOLCHAIN=local go build -o ../bin/govc ./cmd/govc",
 "hooks": {"guard": "verif",
   "enable": "govc loads /repo with go/packages BuildFlags -tags=verif: per-package verif_contracts.go files (contract comments + ghost lemma functions) become visible; nothing is linked into normal builds",
   "baseline_off_cmd": "cd /repo && GOFLAGS=-mod=mod GOPROXY=off GOSUMDB=off GOTOOLCHAIN=local go test -json -vet=off -count=1 -timeout 25m ./...",
   "source_commits": list(reversed(hooks)), "add_only": True},
 "engines": [{"name": "govc", "path": "/verif/engine", "serves_properties": sorted(k for k, v in claims.items() if "na" not in v),
   "kind_free_text": "home-grown contract verifier for Go: VC generation over go/ssa of the real code, contracts in build-tagged files in /repo, obligations discharged by z3 5.1 / z3 4.8 / cvc5 1.0 (contract-based deductive verification)"}],
 "checks": [], "not_applicable": [],
 "notes": "see DESIGN.md; known_findings.json lists recorded/fixed defects; seeded/ holds independently authored property-breaking changes and seeded/RESULTS.json which checks catch them",
}
for p in props:
    c = claims.get(p["id"])
    if not c or "na" in c or not os.path.exists(f"{V}/checks/{p['id']}.json"):
        m["not_applicable"].append({"property_id": p["id"], "reason": (c or {}).get("na", "check not built yet (construction in progress, DESIGN.md section 10)")})
        continue
    m["checks"].append({
      "property_id": p["id"],
      "quick_cmd": f"./check {p['id']} --tier quick",
      "thorough_cmd": f"./check {p['id']} --tier thorough",
      "evidence_file": f"/verif/evidence/{p['id']}.json",
      "replay_cmd_template": f"./check {p['id']} --replay {{path}}",
      "engine": "govc",
      "level_claimed": {"category": c["level"], "text": c["text"], "design_ref": c.get("design_ref", "DESIGN.md section 7")},
      "level_note": c["note"],
      "technique": c.get("technique", "contract-based deductive verification: VCs generated from go/ssa of the real code against contracts, discharged by z3/cvc5"),
    })
json.dump(m, open(f"{V}/MANIFEST.json", "w"), indent=1)
print(len(m["checks"]), "checks;", len(m["not_applicable"]), "not applicable")
