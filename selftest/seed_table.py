#!/usr/bin/env python3
"""Print a markdown table of seeded/RESULTS.json (which check caught which seeded change, and by which obligations)."""
import json, re, os
V = "/verif"
r = json.load(open(os.path.join(V, "seeded", "RESULTS.json")))
print("| seed | property | caught | by |")
print("|---|---|---|---|")
for sid in sorted(r):
    e = r[sid]
    by = []
    for prop, c in e.get("checks", {}).items():
        for l in c.get("lines", [])[:3]:
            m = re.search(r"obligation=(\S+)", l)
            if m:
                tag = "replayed" if "failing-input-replayed" in l else ""
                by.append(m.group(1).split("/", 1)[-1][:70] + (" (replayed)" if tag else ""))
            elif "bounded-check=" in l:
                by.append("bounded run: " + l.split("bounded-check=")[1][:50])
            elif l.startswith("UNDECIDED"):
                by.append("UNDECIDED (exit 2)")
    ok = "yes" if e.get("caught") else ("patch does not apply" if e.get("error") else "no")
    print(f"| {sid} | {e.get('property')} | {ok} | {'; '.join(by)[:200]} |")
