#!/usr/bin/env python3
"""Run the registered checks against the seeded property-breaking changes (and optionally re-confirm the seeds).

usage: selftest/seeded.py [--confirm] [--only ID[,ID]] [--tier quick]
For every /verif/seeded/<id>/: a scratch worktree of /repo HEAD is created under a temp dir, patch.diff is applied,
the property's check is run with VERIF_REPO pointing at the worktree and must exit 1 with a VIOLATION line.
--confirm additionally re-establishes that the seed compiles, passes the existing suite, and that demo_test.go fails
with the change and passes without it.  Results: /verif/seeded/RESULTS.json (rewritten).
"""
import json, os, subprocess, sys, tempfile, shutil, glob, time
ENV = dict(os.environ, GOFLAGS="-mod=mod", GOPROXY="off", GOSUMDB="off", GOTOOLCHAIN="local")
V = "/verif"

def sh(cmd, cwd=None, env=None, timeout=1800):
    p = subprocess.run(cmd, shell=True, cwd=cwd, env=env or ENV, stdout=subprocess.PIPE, stderr=subprocess.STDOUT, text=True, timeout=timeout)
    return p.returncode, p.stdout

def main():
    confirm = "--confirm" in sys.argv
    only = None
    tier = "quick"
    for i, a in enumerate(sys.argv):
        if a == "--only": only = sys.argv[i+1].split(",")
        if a == "--tier": tier = sys.argv[i+1]
    results = {}
    rf = os.path.join(V, "seeded", "RESULTS.json")
    if os.path.exists(rf):
        results = json.load(open(rf))
    for d in sorted(glob.glob(os.path.join(V, "seeded", "*/"))):
        sid = os.path.basename(d.rstrip("/"))
        if only and sid not in only: continue
        meta = json.load(open(os.path.join(d, "meta.json")))
        props = meta.get("checks") or [meta["property"]]
        tmp = tempfile.mkdtemp(prefix="seed-")
        wt = os.path.join(tmp, "wt")
        res = {"property": meta["property"], "checks": {}}
        try:
            rc, out = sh(f"git -C /repo worktree add --detach {wt} HEAD -q")
            rc, out = sh(f"git apply {d}/patch.diff", cwd=wt)
            if rc != 0:
                res["error"] = "patch does not apply: " + out[-300:]
                results[sid] = res; print(sid, "PATCH-FAILS"); continue
            if confirm:
                rc, out = sh("go build ./... ", cwd=wt); res["builds"] = rc == 0
                rc, out = sh("go test -vet=off -count=1 -timeout 25m ./...", cwd=wt); res["suite_passes_with_change"] = rc == 0
                demo = os.path.join(d, "demo_test.go")
                if os.path.exists(demo):
                    shutil.copy(demo, os.path.join(wt, "test", "zz_seed_demo_test.go"))
                    rc, out = sh("go test -vet=off -count=1 -timeout 10m -run 'TestSeed' ./test/", cwd=wt); res["demo_fails_with_change"] = rc != 0
                    os.remove(os.path.join(wt, "test", "zz_seed_demo_test.go"))
                    sh("git checkout -- . ", cwd=wt)
                    shutil.copy(demo, os.path.join(wt, "test", "zz_seed_demo_test.go"))
                    rc, out = sh("go test -vet=off -count=1 -timeout 10m -run 'TestSeed' ./test/", cwd=wt); res["demo_passes_without_change"] = rc == 0
                    os.remove(os.path.join(wt, "test", "zz_seed_demo_test.go"))
                    sh(f"git apply {d}/patch.diff", cwd=wt)
            for prop in props:
                if not os.path.exists(os.path.join(V, "checks", prop + ".json")):
                    res["checks"][prop] = {"exit": None, "note": "no check registered"}; continue
                t0 = time.time()
                rc, out = sh(f"./check {prop} --tier {tier}", cwd=V, env=dict(ENV, VERIF_REPO=wt, VERIF_DIR=V, VERIF_NOEVIDENCE="1"))
                viol = [l for l in out.splitlines() if l.startswith("VIOLATION") or l.startswith("UNDECIDED")]
                res["checks"][prop] = {"exit": rc, "lines": viol[:6], "wall_s": round(time.time()-t0, 1)}
            caught = any(c.get("exit") == 1 for c in res["checks"].values())
            res["caught"] = caught
            print(sid, "CAUGHT" if caught else "MISSED", {k: v.get("exit") for k, v in res["checks"].items()})
        finally:
            sh(f"git -C /repo worktree remove --force {wt}")
            shutil.rmtree(tmp, ignore_errors=True)
        results[sid] = res
        json.dump(results, open(rf, "w"), indent=1, sort_keys=True)

main()
