#!/bin/sh
# runs every registered check once (quick tier) and prints one line per property
cd /verif || exit 2
for f in checks/*.json; do
  p=$(basename "$f" .json)
  t0=$(date +%s)
  out=$(./check "$p" --tier "${1:-quick}" 2>/dev/null)
  rc=$?
  t1=$(date +%s)
  echo "$p exit=$rc $((t1-t0))s $(echo "$out" | grep '^property' | cut -c1-120)"
  echo "$out" | grep '^VIOLATION\|^UNDECIDED\|^KNOWN' | cut -c1-220
done
