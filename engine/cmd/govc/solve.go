package main

import (
	"bufio"
	"hash/fnv"
	"runtime"
	"sort"
	"bytes"
	"context"
	"fmt"
	"os"
	"os/exec"
	"path/filepath"
	"strings"
	"sync"
	"sync/atomic"
	"time"
)

type SolverCfg struct {
	Name string
	Cmd  []string // file name appended
	Pat  bool     // runs on the variant of the query in which user-level quantifiers carry the engine's element-read triggers
}

func solverCfgs(timeoutS int) []SolverCfg {
	ms := fmt.Sprint(timeoutS * 1000)
	return []SolverCfg{
		{"z3-5.1.0", []string{"z3-new", "-T:" + fmt.Sprint(timeoutS), "-t:" + ms}, false},
		{"z3-4.8.12", []string{"/usr/bin/z3", "-T:" + fmt.Sprint(timeoutS), "-t:" + ms}, false},
		{"cvc5-1.0", []string{"cvc5", "--lang=smt2", "--tlimit=" + ms}, false},
		{"cvc5-1.0(enum-inst)", []string{"cvc5", "--lang=smt2", "--enum-inst", "--tlimit=" + ms}, false},
		{"z3-5.1.0(arith2)", []string{"z3-new", "-T:" + fmt.Sprint(timeoutS), "-t:" + ms, "smt.arith.solver=2"}, false},
		{"cvc5-1.0(triggers)", []string{"cvc5", "--lang=smt2", "--tlimit=" + ms}, true},
		{"z3-5.1.0(triggers)", []string{"z3-new", "-T:" + fmt.Sprint(timeoutS), "-t:" + ms}, true},
	}
}

// Quantifiers produced from contracts carry a candidate trigger as "(! body :autopattern (t1 t2))".  The plain variant of
// a query drops it (the solvers infer their own triggers); the trigger variant turns it into :pattern. Restricting
// instantiation can only lose proofs, never create them, so an "unsat" from either variant stands.
func plainSMT(q string) string { return rewriteAuto(q, false) }
func patSMT(q string) string   { return rewriteAuto(q, true) }

func rewriteAuto(q string, keep bool) string {
	const mark = ":autopattern"
	if !strings.Contains(q, mark) {
		return q
	}
	if keep {
		return strings.ReplaceAll(q, " "+mark+" ", " :pattern ")
	}
	// forward scan (quoted symbols |..| and string literals may contain parentheses): for every annotation
	// "(! body :autopattern (..))" remember the spans to delete: the "(! " opener, and " :autopattern (..))" at the end
	type span struct{ from, to int }
	var cuts []span
	var stack []int
	n := len(q)
	for i := 0; i < n; i++ {
		switch q[i] {
		case '|':
			j := strings.IndexByte(q[i+1:], '|')
			if j < 0 {
				i = n
			} else {
				i += j + 1
			}
		case '"':
			j := strings.IndexByte(q[i+1:], '"')
			if j < 0 {
				i = n
			} else {
				i += j + 1
			}
		case ';':
			j := strings.IndexByte(q[i:], '\n')
			if j < 0 {
				i = n
			} else {
				i += j
			}
		case '(':
			stack = append(stack, i)
		case ')':
			if len(stack) > 0 {
				stack = stack[:len(stack)-1]
			}
		case ':':
			if strings.HasPrefix(q[i:], mark) && len(stack) > 0 {
				open := stack[len(stack)-1]
				if strings.HasPrefix(q[open:], "(! ") {
					// the pattern list follows; find its end with the same lexical rules
					k := i + len(mark)
					for k < n && q[k] == ' ' {
						k++
					}
					depth := 0
					end := -1
					for m := k; m < n; m++ {
						c := q[m]
						if c == '|' {
							j := strings.IndexByte(q[m+1:], '|')
							if j < 0 {
								break
							}
							m += j + 1
							continue
						}
						if c == '(' {
							depth++
						} else if c == ')' {
							depth--
							if depth == 0 {
								end = m
								break
							}
						}
					}
					if end > 0 && end+1 < n && q[end+1] == ')' {
						cuts = append(cuts, span{open, open + 3})
						cuts = append(cuts, span{i - 1, end + 2}) // from the space before the mark through the ")" closing "(! "
						stack = stack[:len(stack)-1]
						i = end + 1
					}
				}
			}
		}
	}
	if len(cuts) == 0 {
		return q
	}
	sort.Slice(cuts, func(a, b int) bool { return cuts[a].from < cuts[b].from })
	var b strings.Builder
	pos := 0
	for _, c := range cuts {
		if c.from < pos {
			continue
		}
		b.WriteString(q[pos:c.from])
		pos = c.to
	}
	b.WriteString(q[pos:])
	return b.String()
}

var cpuSem = make(chan struct{}, maxInt2(4, runtime.NumCPU()))

func maxInt2(a, b int) int {
	if a > b {
		return a
	}
	return b
}

func runSolver(parent context.Context, cfg SolverCfg, file string, timeoutS int) (string, string, float64) {
	select {
	case cpuSem <- struct{}{}:
	case <-parent.Done():
		return "cancelled", "", 0
	}
	defer func() { <-cpuSem }()
	ctx, cancelT := context.WithTimeout(parent, time.Duration(timeoutS+3)*time.Second)
	defer cancelT()
	t0 := time.Now()
	cmd := exec.CommandContext(ctx, cfg.Cmd[0], append(cfg.Cmd[1:], file)...)
	var out bytes.Buffer
	cmd.Stdout = &out
	cmd.Stderr = &out
	_ = cmd.Run()
	dt := time.Since(t0).Seconds()
	text := out.String()
	first := ""
	for _, l := range strings.Split(text, "\n") {
		l = strings.TrimSpace(l)
		if l == "sat" || l == "unsat" || l == "unknown" || l == "timeout" {
			first = l
			break
		}
	}
	if first == "" {
		first = "error"
	}
	return first, text, dt
}

func queryText(fr *FuncResult, o *Obligation, withModel bool) string {
	var b strings.Builder
	if withModel {
		b.WriteString("(set-option :produce-models true)\n")
	}
	b.WriteString(fr.Decls)
	n := o.NAsserts
	if n > len(fr.Asserts) {
		n = len(fr.Asserts)
	}
	for i, a := range fr.Asserts[:n] {
		if o.Kind == "cover" && fr.OblAssumes[i] {
			continue // reachability is judged without assuming the obligations themselves
		}
		b.WriteString("(assert ")
		b.WriteString(a)
		b.WriteString(")\n")
	}
	fmt.Fprintf(&b, "(assert (not %s))\n(check-sat)\n", Imp(o.Guard, o.Goal))
	if withModel && len(fr.Observes) > 0 {
		var ts []string
		for _, ob := range fr.Observes {
			ts = append(ts, ob.Term)
		}
		fmt.Fprintf(&b, "(get-value (%s))\n", strings.Join(ts, " "))
	}
	return b.String()
}

// Decls in FuncResult contain the set-logic line first; produce-models must precede it for cvc5.
func fixOptionOrder(q string) string {
	const opt = "(set-option :produce-models true)\n"
	if strings.HasPrefix(q, opt) {
		return q
	}
	return q
}

// batchFirst tries all obligations of a function in one incremental z3 run (cheap path).
func batchFirst(fr *FuncResult, dir string, perQueryMs int) {
	if len(fr.Obls) == 0 {
		return
	}
	var b strings.Builder
	b.WriteString(fr.Decls)
	done := 0
	for _, o := range fr.Obls {
		n := o.NAsserts
		if n > len(fr.Asserts) {
			n = len(fr.Asserts)
		}
		if n < done {
			// postconditions recorded without assume: prefix may be shorter than what was already asserted; use push-less fallback
			continue
		}
		for _, a := range fr.Asserts[done:n] {
			fmt.Fprintf(&b, "(assert %s)\n", a)
		}
		done = n
		if o.Verdict == "proved" {
			continue
		}
		fmt.Fprintf(&b, "(push)\n(assert (not %s))\n(check-sat)\n(pop)\n", Imp(o.Guard, o.Goal))
	}
	file := filepath.Join(dir, fmt.Sprintf("%s.%d.batch.smt2", safeFile(fr.Key), fr.Seq))
	os.WriteFile(file, []byte(plainSMT(b.String())), 0o644)
	cpuSem <- struct{}{}
	ctx, cancel := context.WithTimeout(context.Background(), time.Duration(perQueryMs*len(fr.Obls)+5000)*time.Millisecond)
	defer cancel()
	t0 := time.Now()
	cmd := exec.CommandContext(ctx, "z3-new", "-t:"+fmt.Sprint(perQueryMs), file)
	// answers are read as they come: after 20 goals that the incremental pass did not prove the function is broken (or
	// the pass is useless for it) and the remaining goals are left to the races, which give up early as well
	var answers []string
	if pipe, err := cmd.StdoutPipe(); err == nil && cmd.Start() == nil {
		sc := bufio.NewScanner(pipe)
		sc.Buffer(make([]byte, 1<<20), 1<<20)
		open := 0
		for sc.Scan() {
			l := strings.TrimSpace(sc.Text())
			if l == "sat" || l == "unsat" || l == "unknown" || l == "timeout" {
				answers = append(answers, l)
				if l != "unsat" {
					open++
					if open >= 20 {
						cancel()
						break
					}
				}
			}
		}
		_ = cmd.Wait()
	}
	<-cpuSem
	dt := time.Since(t0).Seconds()
	i := 0
	done = 0
	for _, o := range fr.Obls {
		n := o.NAsserts
		if n > len(fr.Asserts) {
			n = len(fr.Asserts)
		}
		if n < done {
			continue
		}
		done = n
		if o.Verdict == "proved" {
			continue
		}
		if i < len(answers) && answers[i] == "unsat" {
			o.Verdict = "proved"
			o.Solver = "z3-5.1.0(batch)"
			o.Seconds = dt / float64(len(fr.Obls))
		}
		i++
	}
	os.Remove(file)
}

func safeFile(s string) string {
	r := strings.NewReplacer("/", "_", "*", "P", "(", "", ")", "", " ", "_", ":", "_", "$", "S", "\"", "", "'", "", "[", "_", "]", "_", "…", "", "<", "lt", ">", "gt", "|", "_", "&", "_", ";", "_", "=", "eq", ",", "_", "!", "n", "{", "_", "}", "_")
	out := r.Replace(s)
	if len(out) > 120 {
		// keep truncated names distinct (two obligations that differ only in a late suffix must not share a file)
		h := fnv.New32a()
		h.Write([]byte(s))
		out = fmt.Sprintf("%s_%08x", out[:110], h.Sum32())
	}
	return out
}

// raceOne decides one obligation by racing the three solvers.
func raceOne(fr *FuncResult, o *Obligation, dir string, timeoutS int, keepDir string) {
	q0 := queryText(fr, o, false)
	q := plainSMT(q0)
	file := filepath.Join(dir, fmt.Sprintf("%s.%d.smt2", safeFile(fr.Key+"__"+o.Name), fr.Seq))
	os.WriteFile(file, []byte(q), 0o644)
	filePat := ""
	if qp := patSMT(q0); qp != q {
		filePat = file + ".pat.smt2"
		os.WriteFile(filePat, []byte(qp), 0o644)
		defer os.Remove(filePat)
	}
	type ans struct {
		cfg  SolverCfg
		res  string
		text string
		dt   float64
	}
	cfgs := solverCfgs(timeoutS)
	// finite model finding for counterexamples of quantified goals
	cfgs = append(cfgs, SolverCfg{"cvc5-fmf", []string{"cvc5", "--lang=smt2", "--finite-model-find", "--tlimit=" + fmt.Sprint(timeoutS*1000)}, false})
	ctx, cancel := context.WithCancel(context.Background())
	ch := make(chan ans, len(cfgs))
	var active []SolverCfg
	for _, c := range cfgs {
		if c.Pat && filePat == "" {
			continue
		}
		active = append(active, c)
	}
	cfgs = active
	for _, c := range cfgs {
		go func(c SolverCfg) {
			f := file
			if c.Pat {
				f = filePat
			}
			r, t, dt := runSolver(ctx, c, f, timeoutS)
			ch <- ans{c, r, t, dt}
		}(c)
	}
	var outputs []string
	decided := false
	for range cfgs {
		a := <-ch
		outputs = append(outputs, fmt.Sprintf("[%s %.2fs] %s", a.cfg.Name, a.dt, firstLines(a.text, 3)))
		if decided {
			continue
		}
		if a.res == "unsat" && a.cfg.Name != "cvc5-fmf" {
			o.Verdict, o.Solver, o.Seconds = "proved", a.cfg.Name, a.dt
			decided = true
			cancel()
		} else if a.res == "sat" && !a.cfg.Pat {
			o.Verdict, o.Solver, o.Seconds = "refuted", a.cfg.Name, a.dt
			decided = true
			cancel()
		}
	}
	cancel()
	o.Output = strings.Join(outputs, "\n")
	if !decided {
		o.Verdict = "undecided"
		// candidate counterexample from the quantifier-free relaxation (must be confirmed by replay on the real code)
		rq := relaxedQuery(fr, o)
		rfile := file + ".relaxed.smt2"
		os.WriteFile(rfile, []byte(plainSMT(rq)), 0o644)
		ctx3, cancel3 := context.WithCancel(context.Background())
		r, text, dt := runSolver(ctx3, solverCfgs(timeoutS)[0], rfile, timeoutS)
		cancel3()
		if r == "sat" {
			o.Verdict, o.Solver, o.Seconds, o.Model, o.Relaxed = "candidate", "z3-5.1.0(relaxed)", dt, text, true
		}
		os.Remove(rfile)
	}
	if o.Verdict == "refuted" {
		// get a model with z3-new (best model printer); fall back to cvc5
		mq := "(set-option :produce-models true)\n" + queryText(fr, o, true)[len("(set-option :produce-models true)\n"):]
		mfile := file + ".model.smt2"
		os.WriteFile(mfile, []byte(plainSMT(mq)), 0o644)
		ctx2, cancel2 := context.WithCancel(context.Background())
		r, text, _ := runSolver(ctx2, solverCfgs(timeoutS)[0], mfile, timeoutS)
		if r != "sat" {
			r, text, _ = runSolver(ctx2, solverCfgs(timeoutS)[2], mfile, timeoutS)
		}
		cancel2()
		if r == "sat" {
			o.Model = text
		}
		os.Remove(mfile)
	}
	if (o.Verdict != "proved" || o.Kind == "cover" || os.Getenv("GOVC_DUMPALL") != "") && keepDir != "" {
		os.MkdirAll(keepDir, 0o755)
		os.WriteFile(filepath.Join(keepDir, safeFile(fr.Key+"__"+o.Name)+".smt2"), []byte(q), 0o644)
	}
	os.Remove(file)
}

func firstLines(s string, n int) string {
	ls := strings.Split(strings.TrimSpace(s), "\n")
	if len(ls) > n {
		ls = ls[:n]
	}
	return strings.Join(ls, " | ")
}

// Solve decides every obligation of the given function results.
func Solve(frs []*FuncResult, dir string, timeoutS int, keepDir string) {
	os.MkdirAll(dir, 0o755)
	var wg sync.WaitGroup
	for _, fr := range frs {
		wg.Add(1)
		go func(fr *FuncResult) {
			defer wg.Done()
			if os.Getenv("GOVC_NOBATCH") == "" {
				batchFirst(fr, dir, 5000)
			}
			var wg2 sync.WaitGroup
			// at most 12 races of one function at a time; once 8 obligations of the function have failed their race the
			// function is broken and the remaining open ones are reported without a race (a change that invalidates a whole
			// contract would otherwise cost minutes of solver timeouts; on a tree where everything proves this never triggers)
			slots := make(chan struct{}, 12)
			var failed int32
			for _, o := range fr.Obls {
				if o.Verdict == "proved" {
					continue
				}
				wg2.Add(1)
				go func(o *Obligation) {
					defer wg2.Done()
					slots <- struct{}{}
					defer func() { <-slots }()
					if atomic.LoadInt32(&failed) >= 8 && !o.NoRetry {
						o.Verdict = "undecided"
						o.NoRetry = true
						o.Output = "not raced: 8 obligations of this function had already failed\n" + o.Output
						return
					}
					raceOne(fr, o, dir, timeoutS, keepDir)
					if o.Verdict != "proved" {
						atomic.AddInt32(&failed, 1)
					}
				}(o)
			}
			if fr.Cover != nil {
				wg2.Add(1)
				go func() {
					defer wg2.Done()
					raceOne(fr, fr.Cover, dir, 5, keepDir)
				}()
			}
			wg2.Wait()
		}(fr)
	}
	wg.Wait()
	// second chance for obligations that no solver decided: longer budget, a few at a time (less contention).
	// Only when few are left: a function with many open obligations has a real problem, more time will not help.
	var wg3 sync.WaitGroup
	open := 0
	for _, fr := range frs {
		for _, o := range fr.Obls {
			if o.Verdict != "proved" && o.Verdict != "refuted" && !o.NoRetry {
				open++
			}
		}
	}
	for _, fr := range frs {
		if open > 12 {
			break
		}
		for _, o := range fr.Obls {
			if o.Verdict == "proved" || o.Verdict == "refuted" || o.NoRetry {
				continue
			}
			wg3.Add(1)
			go func(fr *FuncResult, o *Obligation) {
				defer wg3.Done()
				retrySem <- struct{}{}
				defer func() { <-retrySem }()
				prev := *o
				raceOne(fr, o, dir, timeoutS*3, keepDir)
				if o.Verdict != "proved" && o.Verdict != "refuted" && prev.Verdict == "candidate" && o.Verdict != "candidate" {
					*o = prev
				}
				o.Output = "first pass: " + prev.Verdict + "\n" + o.Output
			}(fr, o)
		}
	}
	wg3.Wait()
	// last resort: z3's incremental mode (no one-shot preprocessing) decides some quantified goals that no one-shot
	// configuration decides; give the still-open obligations of each function one more incremental run with 5x the budget
	var wg4 sync.WaitGroup
	for _, fr := range frs {
		openHere := 0
		for _, o := range fr.Obls {
			if o.Verdict != "proved" && o.Verdict != "refuted" && !o.NoRetry {
				openHere++
			}
		}
		if openHere == 0 || openHere > 4 || os.Getenv("GOVC_NOBATCH") != "" {
			continue
		}
		wg4.Add(1)
		go func(fr *FuncResult) {
			defer wg4.Done()
			batchFirst(fr, dir, 15000)
		}(fr)
	}
	wg4.Wait()
}

var retrySem = make(chan struct{}, 4)

// relaxedQuery drops every quantified assertion: a model of it is only a candidate counterexample.
func relaxedQuery(fr *FuncResult, o *Obligation) string {
	var b strings.Builder
	b.WriteString("(set-option :produce-models true)\n")
	for _, l := range strings.Split(fr.Decls, "\n") {
		if strings.HasPrefix(l, "(assert") && (strings.Contains(l, "(forall") || strings.Contains(l, "(exists")) {
			continue
		}
		b.WriteString(l)
		b.WriteByte('\n')
	}
	n := o.NAsserts
	if n > len(fr.Asserts) {
		n = len(fr.Asserts)
	}
	for i, a := range fr.Asserts[:n] {
		if strings.Contains(a, "(forall") || strings.Contains(a, "(exists") {
			continue
		}
		if o.Kind == "cover" && fr.OblAssumes[i] {
			continue
		}
		fmt.Fprintf(&b, "(assert %s)\n", a)
	}
	fmt.Fprintf(&b, "(assert (not %s))\n(check-sat)\n", Imp(o.Guard, o.Goal))
	if len(fr.Observes) > 0 {
		var ts []string
		for _, ob := range fr.Observes {
			ts = append(ts, ob.Term)
		}
		fmt.Fprintf(&b, "(get-value (%s))\n", strings.Join(ts, " "))
	}
	return b.String()
}
