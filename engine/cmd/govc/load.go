package main

import (
	"fmt"
	"go/ast"
	"go/token"
	"go/types"
	"os"
	"path/filepath"
	"sort"
	"strings"

	"golang.org/x/tools/go/packages"
	"golang.org/x/tools/go/ssa"
	"golang.org/x/tools/go/ssa/ssautil"
)

const modPath = "berty.tech/go-ipfs-log"

// Program is the loaded /repo with SSA.
type Program struct {
	Fset    *token.FileSet
	Pkgs    []*packages.Package
	Prog    *ssa.Program
	SSAPkgs map[string]*ssa.Package // by import path
	AllPkgs map[string]*packages.Package
	// contract source per module package path: lines of //@ comments with positions
	SpecSrc  map[string][]SpecLine
	ModFuncs []*ssa.Function // every function (incl. anonymous, methods) of module non-test packages
	funcByKey map[string]*ssa.Function
	Files    map[string]*ast.File // filename -> ast
}

type SpecLine struct {
	File string
	Line int
	Text string
}

func repoDir() string {
	if d := os.Getenv("VERIF_REPO"); d != "" {
		return d
	}
	return "/repo"
}

func LoadProgram(dir string) (*Program, error) {
	cfg := &packages.Config{
		Mode: packages.NeedName | packages.NeedFiles | packages.NeedCompiledGoFiles | packages.NeedImports |
			packages.NeedDeps | packages.NeedTypes | packages.NeedSyntax | packages.NeedTypesInfo | packages.NeedTypesSizes | packages.NeedModule,
		Dir:        dir,
		BuildFlags: []string{"-tags=verif"},
		Env:        append(os.Environ(), "GOFLAGS=-mod=mod", "GOPROXY=off", "GOSUMDB=off", "GOTOOLCHAIN=local"),
	}
	pkgs, err := packages.Load(cfg, "./...")
	if err != nil {
		return nil, err
	}
	var errs []string
	packages.Visit(pkgs, nil, func(p *packages.Package) {
		if strings.HasPrefix(p.PkgPath, modPath) {
			for _, e := range p.Errors {
				errs = append(errs, e.Error())
			}
		}
	})
	if len(errs) > 0 {
		return nil, fmt.Errorf("load errors:\n%s", strings.Join(errs, "\n"))
	}
	prog, _ := ssautil.AllPackages(pkgs, ssa.GlobalDebug|ssa.InstantiateGenerics)
	prog.Build()
	p := &Program{Prog: prog, Pkgs: pkgs, SSAPkgs: map[string]*ssa.Package{}, AllPkgs: map[string]*packages.Package{}, SpecSrc: map[string][]SpecLine{}, funcByKey: map[string]*ssa.Function{}, Files: map[string]*ast.File{}}
	packages.Visit(pkgs, nil, func(pp *packages.Package) {
		p.AllPkgs[pp.PkgPath] = pp
		if sp := prog.Package(pp.Types); sp != nil {
			p.SSAPkgs[pp.PkgPath] = sp
		}
		if p.Fset == nil && pp.Fset != nil {
			p.Fset = pp.Fset
		}
	})
	// module functions
	all := ssautil.AllFunctions(prog)
	for fn := range all {
		if fn.Pkg == nil && fn.Parent() == nil {
			// wrappers / synthetic
			continue
		}
		pk := fn.Pkg
		if pk == nil && fn.Parent() != nil {
			pk = fn.Parent().Pkg
		}
		if pk == nil || !isModulePkg(pk.Pkg.Path()) {
			continue
		}
		if fn.Synthetic != "" && fn.Parent() == nil {
			continue
		}
		p.ModFuncs = append(p.ModFuncs, fn)
	}
	sort.Slice(p.ModFuncs, func(i, j int) bool { return FuncKey(p.ModFuncs[i]) < FuncKey(p.ModFuncs[j]) })
	for _, fn := range p.ModFuncs {
		p.funcByKey[FuncKey(fn)] = fn
	}
	// spec sources: files with the verif build tag in module packages
	for path, pp := range p.AllPkgs {
		if !isModulePkg(path) {
			continue
		}
		for i, f := range pp.Syntax {
			name := pp.CompiledGoFiles[i]
			p.Files[name] = f
			if !strings.HasPrefix(filepath.Base(name), "verif_") {
				continue
			}
			for _, cg := range f.Comments {
				for _, c := range cg.List {
					t := c.Text
					if strings.HasPrefix(t, "//@") {
						pos := pp.Fset.Position(c.Pos())
						p.SpecSrc[path] = append(p.SpecSrc[path], SpecLine{File: name, Line: pos.Line, Text: strings.TrimPrefix(t, "//@")})
					}
				}
			}
		}
		sort.SliceStable(p.SpecSrc[path], func(i, j int) bool {
			a, b := p.SpecSrc[path][i], p.SpecSrc[path][j]
			if a.File != b.File {
				return a.File < b.File
			}
			return a.Line < b.Line
		})
	}
	return p, nil
}

func isModulePkg(path string) bool {
	if !(path == modPath || strings.HasPrefix(path, modPath+"/")) {
		return false
	}
	rest := strings.TrimPrefix(path, modPath)
	if strings.HasPrefix(rest, "/test") || strings.HasPrefix(rest, "/example") {
		return false
	}
	return true
}

// shortPkg gives the relative package path used in function keys ("" for the root package).
func shortPkg(path string) string {
	if path == modPath {
		return "ipfslog"
	}
	if strings.HasPrefix(path, modPath+"/") {
		return strings.TrimPrefix(path, modPath+"/")
	}
	return path
}

// FuncKey is the stable name of a function: pkg.Name, pkg.(*T).Name, pkg.Name$1.
func FuncKey(fn *ssa.Function) string {
	if fn.Parent() != nil {
		// anonymous: parent key + $n
		name := fn.Name() // e.g. Join$1
		idx := strings.LastIndex(name, "$")
		return FuncKey(fn.Parent()) + name[idx:]
	}
	pkg := ""
	if fn.Pkg != nil {
		pkg = shortPkg(fn.Pkg.Pkg.Path())
	} else if fn.Object() != nil && fn.Object().Pkg() != nil {
		pkg = shortPkg(fn.Object().Pkg().Path())
	}
	if recv := fn.Signature.Recv(); recv != nil {
		return pkg + "." + recvString(recv.Type()) + "." + fn.Name()
	}
	return pkg + "." + fn.Name()
}

func recvString(t types.Type) string {
	star := ""
	if p, ok := t.(*types.Pointer); ok {
		star = "*"
		t = p.Elem()
	}
	if n, ok := t.(*types.Named); ok {
		return "(" + star + n.Obj().Name() + ")"
	}
	return "(" + star + t.String() + ")"
}

// MethodKey names an interface method (for invoke-mode calls): pkg.Iface.Method via types.Func.FullName.
func MethodKey(m *types.Func) string {
	// FullName: (berty.tech/go-ipfs-log/iface.IPFSLogEntry).GetHash
	s := m.FullName()
	s = strings.ReplaceAll(s, modPath+"/", "")
	s = strings.ReplaceAll(s, modPath, "ipfslog")
	return s
}
