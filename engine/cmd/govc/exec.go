package main

import (
	"fmt"
	"go/ast"
	"go/constant"
	"go/token"
	"go/types"
	"strings"

	"golang.org/x/tools/go/ssa"
)

type deferEntry struct {
	guard string
	call  *ssa.CallCommon
	args  []Val
	fnv   Val
	pos   token.Pos
}

type retPoint struct {
	guard string
	vals  []Val
	st    *State
	pos   token.Pos
}

type loopInfo struct {
	header *ssa.BasicBlock
	index  int
	blocks map[*ssa.BasicBlock]bool
	spec   *LoopSpec
	// recorded at header processing, used at back edges
	entryState *State // state at loop entry (before havoc)
	headState  *State // havocked state at header
	auto       []string
}

type act struct {
	fx      *FX
	fn      *ssa.Function
	id      int
	depth   int
	top     bool
	vals    map[ssa.Value]Val
	defers  []deferEntry
	rets    []retPoint
	loops   map[*ssa.BasicBlock]*loopInfo
	spec    *FuncSpec
	exitSt  map[*ssa.BasicBlock]*State
	reach   map[*ssa.BasicBlock]string
	edge    map[[2]int]string
	cur     *ssa.BasicBlock
	rangeN  int
	ranges  map[ssa.Value]*rangeInfo
	deadEnd bool
	hintAnchors map[ssa.Instruction][]*AssertHint
	hintPoint   ssa.Instruction
}

type rangeInfo struct {
	m       Val
	visited string // state var name
	ksort   Sort
	vsort   Sort
	has     string
	val     string
}

func (a *act) name(v ssa.Value) string {
	return fmt.Sprintf("%s!%s#%d", a.fn.Name(), v.Name(), a.id)
}

// bind introduces a constant for a complex term to keep scripts linear.
func (a *act) bind(v ssa.Value, t string, s Sort) string {
	if len(t) < 48 || s == "Tuple" {
		return t
	}
	c := a.fx.ctx.Declare(a.name(v), s)
	a.fx.ctx.Assert(Eq(c, t))
	return c
}

func (a *act) sortOf(t types.Type) Sort { return a.fx.eng.SortOf(t) }

// constVal translates an ssa.Const.
func (a *act) constVal(c *ssa.Const) Val {
	t := c.Type()
	e := a.fx.eng
	if c.Value == nil {
		return Val{T: e.zeroOf(t), S: e.SortOf(t), GT: t}
	}
	switch c.Value.Kind() {
	case constant.Bool:
		if constant.BoolVal(c.Value) {
			return Val{T: "true", S: SBool, GT: t}
		}
		return Val{T: "false", S: SBool, GT: t}
	case constant.String:
		return Val{T: a.fx.ctx.StrLit(constant.StringVal(c.Value)), S: SStr, GT: t}
	case constant.Int:
		if _, ok := intKind(t); ok {
			s := c.Value.ExactString()
			if strings.HasPrefix(s, "-") {
				s = "(- " + s[1:] + ")"
			}
			return Val{T: s, S: SInt, GT: t}
		}
		if b, ok := t.Underlying().(*types.Basic); ok && (b.Kind() == types.Float64 || b.Kind() == types.Float32) {
			return Val{T: c.Value.ExactString() + ".0", S: "Real", GT: t}
		}
	case constant.Float:
		if f, ok := constant.Float64Val(c.Value); ok || f == f {
			s := fmt.Sprintf("%.17g", f)
			if !strings.ContainsAny(s, ".e") {
				s += ".0"
			}
			if !strings.Contains(s, "e") {
				if strings.HasPrefix(s, "-") {
					s = "(- " + s[1:] + ")"
				}
				return Val{T: s, S: "Real", GT: t}
			}
		}
		unsupportedf("float constant")
	}
	unsupportedf("constant %s of type %s", c.Value, t)
	return Val{}
}

func (a *act) val(v ssa.Value, st *State) Val {
	switch x := v.(type) {
	case *ssa.Const:
		return a.constVal(x)
	case *ssa.Function:
		return Val{T: a.fx.fnConst(x), S: SFn, GT: x.Type(), Fn: x}
	case *ssa.Global:
		if x.Name() == "Undef" && strings.HasSuffix(x.Pkg.Pkg.Path(), "ipfs/go-cid") {
			// cid.Undef is the zero Cid; it is never assigned
			c := a.fx.ctx.Declare("globaddr!cid.Undef", SRef)
			return Val{T: c, S: SRef, GT: x.Type(), Loc: &Loc{Heap: "Const!cid.Undef", GT: derefType(x.Type())}}
		}
		name := "G!" + shortPkg(x.Pkg.Pkg.Path()) + "." + x.Name()
		elem := x.Type().(*types.Pointer).Elem()
		return Val{T: a.fx.ctx.Declare("globaddr!"+name, SRef), S: SRef, GT: x.Type(), Loc: &Loc{Heap: name, GT: elem}}
	case *ssa.Builtin:
		return Val{T: "builtin!" + x.Name(), S: SFn, GT: x.Type()}
	}
	if r, ok := a.vals[v]; ok {
		return r
	}
	panic(fmt.Sprintf("value %s (%T) of %s not yet computed", v.Name(), v, a.fn))
}

func (fx *FX) fnConst(fn *ssa.Function) string {
	name := quoteSym("fn!" + FuncKey(fn))
	first := !fx.ctx.declared[name]
	c := fx.ctx.Declare("fn!"+FuncKey(fn), SFn)
	if first {
		// a declared function used as a value is not the nil function value
		fx.ctx.Assert(Not(Eq(c, "fn!nil")))
	}
	return c
}

// ---------- memory ----------

func (a *act) heapSort(loc *Loc) Sort {
	vs := a.sortOf(loc.GT)
	if loc.Obj == "" {
		return vs
	}
	if loc.Idx != "" {
		return ArrS(SRef, ArrS(SInt, vs))
	}
	return ArrS(SRef, vs)
}

func (a *act) load(loc *Loc, st *State) string {
	fx := a.fx
	if loc.Heap == "Const!cid.Undef" {
		return "cid!undef"
	}
	h := fx.sv(st, loc.Heap, a.heapSort(loc))
	var t string
	switch {
	case loc.Obj == "":
		t = h
	case loc.Idx != "":
		t = Sel(Sel(h, loc.Obj), loc.Idx)
	default:
		t = Sel(h, loc.Obj)
	}
	return t
}

func (a *act) store(loc *Loc, v string, st *State) {
	fx := a.fx
	hs := a.heapSort(loc)
	h := fx.sv(st, loc.Heap, hs)
	switch {
	case loc.Obj == "":
		fx.setSV(st, loc.Heap, hs, v)
	case loc.Idx != "":
		fx.setSV(st, loc.Heap, hs, Store(h, loc.Obj, Store(Sel(h, loc.Obj), loc.Idx, v)))
	default:
		fx.setSV(st, loc.Heap, hs, Store(h, loc.Obj, v))
	}
}

// typeFacts returns facts that hold for any value of the Go type (ranges, lengths).
func (a *act) typeFacts(t string, gt types.Type) string {
	if gt == nil {
		return "true"
	}
	if ii, ok := intKind(gt); ok {
		return ii.rangeFact(t)
	}
	switch gt.Underlying().(type) {
	case *types.Slice:
		return fmt.Sprintf("(and (>= (slen %s) 0) (>= (soff %s) 0) (<= (slen %s) 281474976710656) (=> (= (sbase %s) null) (= (slen %s) 0)))", t, t, t, t, t)
	case *types.Interface:
		return fmt.Sprintf("(=> (= (itag %s) 0) (= %s nil!iface))", t, t)
	}
	return "true"
}

func derefType(t types.Type) types.Type {
	if p, ok := t.Underlying().(*types.Pointer); ok {
		return p.Elem()
	}
	panic("not a pointer: " + t.String())
}

func fieldHeap(structT types.Type, idx int) string {
	st := structT.Underlying().(*types.Struct)
	return "F!" + typeName(structT) + "." + st.Field(idx).Name()
}

// cellLoc is the location a plain pointer value refers to.
func (a *act) cellLoc(p Val) *Loc {
	if p.Loc != nil {
		return p.Loc
	}
	elem := derefType(p.GT)
	if _, ok := elem.Underlying().(*types.Struct); ok && !isCid(elem) {
		unsupportedf("whole-struct access through pointer %s", p.GT)
	}
	if arr, ok := elem.Underlying().(*types.Array); ok {
		_ = arr
		unsupportedf("whole-array access through pointer %s", p.GT)
	}
	return &Loc{Heap: "Cell!" + typeName(elem), Obj: p.T, GT: elem}
}

// zeroInit initialises all fields of a freshly allocated object.
func (a *act) zeroInit(r string, t types.Type, st *State) {
	e := a.fx.eng
	switch u := t.Underlying().(type) {
	case *types.Struct:
		if isCid(t) {
			a.store(&Loc{Heap: "Cell!" + typeName(t), Obj: r, GT: t}, "cid!undef", st)
			return
		}
		if isOpaqueStruct(t) {
			return
		}
		for i := 0; i < u.NumFields(); i++ {
			ft := u.Field(i).Type()
			if _, isStruct := ft.Underlying().(*types.Struct); isStruct && !isCid(ft) {
				a.zeroInit(fmt.Sprintf("(sub %s %d)", r, i), ft, st)
				continue
			}
			if _, isArr := ft.Underlying().(*types.Array); isArr {
				continue
			}
			a.store(&Loc{Heap: fieldHeap(t, i), Obj: r, GT: ft}, e.zeroOf(ft), st)
		}
	case *types.Array:
		et := u.Elem()
		hs := ArrS(SRef, ArrS(SInt, e.SortOf(et)))
		h := a.fx.sv(st, "Elem!"+typeName(et), hs)
		a.fx.setSV(st, "Elem!"+typeName(et), hs, Store(h, r, a.fx.constArray(SInt, e.SortOf(et), e.zeroOf(et))))
	default:
		a.store(&Loc{Heap: "Cell!" + typeName(t), Obj: r, GT: t}, e.zeroOf(t), st)
	}
}

// ---------- obligations helpers ----------

func (a *act) oblName(instrPos token.Pos, want func(ast.Node) bool) string {
	return a.fx.eng.srcText(instrPos, want)
}

func (a *act) prefix() string {
	if a.top {
		return ""
	}
	return FuncKey(a.fn) + "/"
}

func (a *act) nilObl(x Val, guard string, pos token.Pos, what string) {
	if x.T == "null" {
		a.fx.addObl("nil", a.prefix()+what, guard, "false", pos, "nil dereference")
		return
	}
	if strings.HasPrefix(x.T, "new!") || strings.HasPrefix(x.T, "(sub ") || strings.HasPrefix(x.T, "globaddr!") {
		return
	}
	a.fx.addObl("nil", a.prefix()+what, guard, Not(Eq(x.T, "null")), pos, "nil dereference")
}

// ---------- instruction execution ----------

func (a *act) exec(instr ssa.Instruction, guard string, st *State) {
	fx := a.fx
	e := fx.eng
	switch in := instr.(type) {
	case *ssa.DebugRef:
		return
	case *ssa.Alloc:
		r := fx.alloc(st, strings.TrimLeft(in.Name(), "t"))
		elem := derefType(in.Type())
		a.zeroInit(r, elem, st)
		a.vals[in] = Val{T: r, S: SRef, GT: in.Type()}
	case *ssa.FieldAddr:
		x := a.val(in.X, st)
		stT := derefType(in.X.Type())
		su := stT.Underlying().(*types.Struct)
		f := su.Field(in.Field)
		what := a.oblName(in.Pos(), func(n ast.Node) bool { _, ok := n.(*ast.SelectorExpr); return ok })
		if what == "?" {
			what = in.X.Name() + "." + f.Name()
		}
		a.nilObl(x, guard, in.Pos(), what)
		addr := fmt.Sprintf("(sub %s %d)", x.T, in.Field)
		if _, isStruct := f.Type().Underlying().(*types.Struct); isStruct && !isCid(f.Type()) {
			a.vals[in] = Val{T: addr, S: SRef, GT: in.Type()}
			return
		}
		if _, isArr := f.Type().Underlying().(*types.Array); isArr {
			a.vals[in] = Val{T: addr, S: SRef, GT: in.Type()}
			return
		}
		loc := &Loc{Heap: fieldHeap(stT, in.Field), Obj: x.T, GT: f.Type(), Owner: x.T}
		if n, ok := types.Unalias(stT).(*types.Named); ok && n.Obj().Pkg() != nil {
			loc.FieldKey = shortPkg(n.Obj().Pkg().Path()) + "." + n.Obj().Name() + "." + f.Name()
		}
		a.vals[in] = Val{T: addr, S: SRef, GT: in.Type(), Loc: loc}
	case *ssa.Field:
		x := a.val(in.X, st)
		srt := a.sortOf(in.X.Type())
		if isCid(in.X.Type()) {
			unsupportedf("field of cid.Cid")
		}
		a.vals[in] = Val{T: App(e.structSel(string(srt), in.Field), x.T), S: a.sortOf(in.Type()), GT: in.Type()}
	case *ssa.IndexAddr:
		x := a.val(in.X, st)
		idx := a.val(in.Index, st)
		what := a.oblName(in.Pos(), func(n ast.Node) bool { _, ok := n.(*ast.IndexExpr); return ok })
		switch xt := in.X.Type().Underlying().(type) {
		case *types.Slice:
			if what == "?" {
				what = in.X.Name() + "[" + in.Index.Name() + "]"
			}
			fx.addObl("index", a.prefix()+what, guard, fmt.Sprintf("(and (<= 0 %s) (< %s (slen %s)))", idx.T, idx.T, x.T), in.Pos(), "index out of range")
			et := xt.Elem()
			if _, isStruct := et.Underlying().(*types.Struct); isStruct && !isCid(et) {
				unsupportedf("slice of struct values %s", xt)
			}
			a.vals[in] = Val{T: "elemaddr", S: SRef, GT: in.Type(), Loc: &Loc{Heap: "Elem!" + typeName(et), Obj: App("sbase", x.T), Idx: fmt.Sprintf("(sidx %s %s)", x.T, idx.T), GT: et}}
		case *types.Pointer:
			arr := xt.Elem().Underlying().(*types.Array)
			a.nilObl(x, guard, in.Pos(), what)
			if c, ok := in.Index.(*ssa.Const); !ok || c.Int64() < 0 || c.Int64() >= arr.Len() {
				fx.addObl("index", a.prefix()+what, guard, fmt.Sprintf("(and (<= 0 %s) (< %s %d))", idx.T, idx.T, arr.Len()), in.Pos(), "index out of range")
			}
			et := arr.Elem()
			a.vals[in] = Val{T: "elemaddr", S: SRef, GT: in.Type(), Loc: &Loc{Heap: "Elem!" + typeName(et), Obj: x.T, Idx: idx.T, GT: et}}
		default:
			unsupportedf("IndexAddr on %s", in.X.Type())
		}
	case *ssa.Index:
		x := a.val(in.X, st)
		idx := a.val(in.Index, st)
		what := a.oblName(in.Pos(), func(n ast.Node) bool { _, ok := n.(*ast.IndexExpr); return ok })
		switch xt := in.X.Type().Underlying().(type) {
		case *types.Array:
			fx.addObl("index", a.prefix()+what, guard, fmt.Sprintf("(and (<= 0 %s) (< %s %d))", idx.T, idx.T, xt.Len()), in.Pos(), "index out of range")
			a.vals[in] = Val{T: Sel(x.T, idx.T), S: a.sortOf(in.Type()), GT: in.Type()}
		case *types.Basic: // string
			fx.addObl("index", a.prefix()+what, guard, fmt.Sprintf("(and (<= 0 %s) (< %s (strlen %s)))", idx.T, idx.T, x.T), in.Pos(), "index out of range")
			f := fx.ctx.DeclareFun("str.at", []Sort{SStr, SInt}, SInt)
			t := App(f, x.T, idx.T)
			fx.ctx.Assert(fmt.Sprintf("(and (<= 0 %s) (<= %s 255))", t, t))
			a.vals[in] = Val{T: t, S: SInt, GT: in.Type()}
		default:
			unsupportedf("Index on %s", in.X.Type())
		}
	case *ssa.UnOp:
		x := a.val(in.X, st)
		switch in.Op {
		case token.MUL: // load
			if st, ok := derefType(in.X.Type()).Underlying().(*types.Struct); ok && !isCid(derefType(in.X.Type())) {
				a.vals[in] = a.loadStruct(x, derefType(in.X.Type()), st, guard, instr, a.curState())
				return
			}
			loc := a.cellLoc(x)
			if x.Loc == nil {
				what := a.oblName(in.Pos(), nil)
				if what == "?" {
					what = "*" + in.X.Name()
				}
				a.nilObl(x, guard, in.Pos(), what)
			}
			a.lockObl(loc, false, guard, in.Pos(), st)
			t := a.load(loc, st)
			t = a.bind(in, t, a.sortOf(in.Type()))
			if f := a.typeFacts(t, in.Type()); f != "true" {
				fx.ctx.Assert(Imp(guard, f))
			}
			lv := Val{T: t, S: a.sortOf(in.Type()), GT: in.Type()}
			if g, isG := in.X.(*ssa.Global); isG && lv.S == SIface && strings.HasPrefix(g.Name(), "Err") && fx.eng.globalNeverStored(g) {
				fx.ctx.Assert(Imp(guard, Not(Eq(App("itag", t), "0"))))
				fx.eng.assume("package-level Err* variables are initialised to non-nil errors (no function of the module assigns them: checked)")
			}
			if sv, ok := fx.cellFns[loc.Heap+"|"+loc.Obj]; ok && sv.Fn != nil {
				lv.Fn, lv.Bind, lv.T = sv.Fn, sv.Bind, sv.T
			}
			a.vals[in] = lv
		case token.SUB:
			ii, _ := intKind(in.Type())
			a.vals[in] = Val{T: App(ii.wrapFn(), "(- "+x.T+")"), S: SInt, GT: in.Type()}
		case token.NOT:
			a.vals[in] = Val{T: Not(x.T), S: SBool, GT: in.Type()}
		case token.XOR:
			ii, _ := intKind(in.Type())
			a.vals[in] = Val{T: App(ii.wrapFn(), "(- (- "+x.T+") 1)"), S: SInt, GT: in.Type()}
		default:
			unsupportedf("unary %s", in.Op)
		}
	case *ssa.Store:
		addr := a.val(in.Addr, st)
		v := a.val(in.Val, st)
		if stt, ok := derefType(in.Addr.Type()).Underlying().(*types.Struct); ok && !isCid(derefType(in.Addr.Type())) {
			a.storeStruct(addr, v, derefType(in.Addr.Type()), stt, st)
			return
		}
		loc := a.cellLoc(addr)
		if addr.Loc == nil {
			a.nilObl(addr, guard, in.Pos(), "*"+in.Addr.Name())
		}
		a.lockObl(loc, true, guard, in.Pos(), st)
		a.store(loc, v.T, st)
		a.noteStatic(loc, v)
	case *ssa.BinOp:
		a.vals[in] = a.binop(in, guard, st)
	case *ssa.Phi:
		// handled at block entry
	case *ssa.Convert:
		a.vals[in] = a.convert(in, guard, st)
	case *ssa.ChangeType:
		x := a.val(in.X, st)
		x.GT = in.Type()
		a.vals[in] = x
	case *ssa.ChangeInterface:
		x := a.val(in.X, st)
		x.GT = in.Type()
		a.vals[in] = x
	case *ssa.MakeInterface:
		x := a.val(in.X, st)
		a.vals[in] = a.makeIface(x, in.X.Type(), in.Type())
	case *ssa.TypeAssert:
		a.vals[in] = a.typeAssert(in, guard, st)
	case *ssa.Extract:
		t := a.val(in.Tuple, st)
		if in.Index >= len(t.Tuple) {
			panic("extract out of range")
		}
		a.vals[in] = t.Tuple[in.Index]
	case *ssa.MakeClosure:
		fn := in.Fn.(*ssa.Function)
		var binds []Val
		for _, b := range in.Bindings {
			binds = append(binds, a.val(b, st))
		}
		c := fx.ctx.Fresh("closure!"+fn.Name(), SFn)
		fx.ctx.Assert(Not(Eq(c, "fn!nil")))
		a.vals[in] = Val{T: c, S: SFn, GT: in.Type(), Fn: fn, Bind: binds}
	case *ssa.MakeMap:
		r := fx.alloc(st, "map")
		mt := in.Type().Underlying().(*types.Map)
		has, _, ln := a.mapHeaps(mt)
		ks := a.sortOf(mt.Key())
		h := fx.sv(st, has, ArrS(SRef, ArrS(ks, SBool)))
		fx.setSV(st, has, ArrS(SRef, ArrS(ks, SBool)), Store(h, r, fx.constArray(ks, SBool, "false")))
		l := fx.sv(st, ln, ArrS(SRef, SInt))
		fx.setSV(st, ln, ArrS(SRef, SInt), Store(l, r, "0"))
		a.vals[in] = Val{T: r, S: SRef, GT: in.Type()}
	case *ssa.MakeSlice:
		ln := a.val(in.Len, st)
		fx.addObl("makeslice", a.prefix()+a.oblName(in.Pos(), nil), guard, fmt.Sprintf("(<= 0 %s)", ln.T), in.Pos(), "negative length")
		r := fx.alloc(st, "slice")
		et := in.Type().Underlying().(*types.Slice).Elem()
		a.zeroInit(r, types.NewArray(et, 0), st)
		t := fmt.Sprintf("(mk-slice %s 0 %s)", r, ln.T)
		a.vals[in] = Val{T: a.bind(in, t, SSlice), S: SSlice, GT: in.Type()}
	case *ssa.MakeChan:
		r := fx.alloc(st, "chan")
		c := fx.sv(st, "ChanClosed", ArrS(SRef, SBool))
		fx.setSV(st, "ChanClosed", ArrS(SRef, SBool), Store(c, r, "false"))
		l := fx.sv(st, "ChanLen", ArrS(SRef, SInt))
		fx.setSV(st, "ChanLen", ArrS(SRef, SInt), Store(l, r, "0"))
		a.vals[in] = Val{T: r, S: SRef, GT: in.Type()}
	case *ssa.Slice:
		a.vals[in] = a.sliceOp(in, guard, st)
	case *ssa.Lookup:
		a.vals[in] = a.lookup(in, guard, st)
	case *ssa.MapUpdate:
		m := a.val(in.Map, st)
		k := a.val(in.Key, st)
		v := a.val(in.Value, st)
		what := a.oblName(in.Pos(), func(n ast.Node) bool { _, ok := n.(*ast.IndexExpr); return ok })
		a.nilObl(m, guard, in.Pos(), "mapstore "+what)
		a.mapStore(m, k, v, in.Map.Type().Underlying().(*types.Map), st)
	case *ssa.Range:
		a.rangeInit(in, st)
	case *ssa.Next:
		a.vals[in] = a.rangeNext(in, guard, st)
	case *ssa.Send:
		ch := a.val(in.Chan, st)
		v := a.val(in.X, st)
		closed := fx.sv(st, "ChanClosed", ArrS(SRef, SBool))
		fx.addObl("chan", a.prefix()+"send "+a.oblName(in.Pos(), nil), guard, Not(Sel(closed, ch.T)), in.Pos(), "send on closed channel")
		et := in.Chan.Type().Underlying().(*types.Chan).Elem()
		hn := "ChanSent!" + typeName(et)
		hs := ArrS(SRef, ArrS(SInt, a.sortOf(et)))
		h := fx.sv(st, hn, hs)
		l := fx.sv(st, "ChanLen", ArrS(SRef, SInt))
		fx.setSV(st, hn, hs, Store(h, ch.T, Store(Sel(h, ch.T), Sel(l, ch.T), v.T)))
		fx.setSV(st, "ChanLen", ArrS(SRef, SInt), Store(l, ch.T, fmt.Sprintf("(+ %s 1)", Sel(l, ch.T))))
	case *ssa.Call:
		r := a.call(in, in.Common(), guard, st)
		a.vals[in] = r
	case *ssa.Defer:
		c := in.Common()
		var args []Val
		for _, x := range c.Args {
			args = append(args, a.val(x, st))
		}
		a.defers = append(a.defers, deferEntry{guard: guard, call: c, args: args, fnv: a.val(c.Value, st), pos: in.Pos()})
	case *ssa.RunDefers:
		for i := len(a.defers) - 1; i >= 0; i-- {
			d := a.defers[i]
			g := And(guard, d.guard)
			if d.guard == guard || impliesTriv(guard, d.guard) {
				a.callWith(d.call, d.fnv, d.args, guard, st, d.pos, nil)
				continue
			}
			// conditional defer: run on a clone and merge
			cl := st.clone()
			a.callWith(d.call, d.fnv, d.args, g, cl, d.pos, nil)
			m := fx.mergeStates([]string{g, And(guard, Not(d.guard))}, []*State{cl, st})
			st.vars = m.vars
		}
	case *ssa.Go:
		a.goStmt(in, guard, st)
	case *ssa.Panic:
		fx.addObl("unreachable", a.prefix()+"panic("+a.oblName(in.Pos(), nil)+")", guard, "false", in.Pos(), "explicit panic")
	default:
		unsupportedf("instruction %T (%s)", instr, instr)
	}
}

func impliesTriv(a, b string) bool {
	return b == "true" || a == b
}

func (a *act) curState() *State { return nil }

// loadStruct builds a struct value from the field heaps.
func (a *act) loadStruct(p Val, t types.Type, st *types.Struct, guard string, instr ssa.Instruction, _ *State) Val {
	unsupportedf("struct value load %s", t)
	return Val{}
}

func (a *act) storeStruct(addr, v Val, t types.Type, stt *types.Struct, st *State) {
	// store of a struct value into freshly allocated memory: decompose by selector
	e := a.fx.eng
	srt := e.SortOf(t)
	for i := 0; i < stt.NumFields(); i++ {
		ft := stt.Field(i).Type()
		if isOpaqueStruct(ft) {
			continue
		}
		fv := App(e.structSel(string(srt), i), v.T)
		if fst, ok := ft.Underlying().(*types.Struct); ok && !isCid(ft) {
			a.storeStruct(Val{T: fmt.Sprintf("(sub %s %d)", addr.T, i), S: SRef}, Val{T: fv}, ft, fst, st)
			continue
		}
		a.store(&Loc{Heap: fieldHeap(t, i), Obj: addr.T, GT: ft}, fv, st)
	}
}

// noteStatic remembers statically-known function values stored in closure cells.
func (a *act) noteStatic(loc *Loc, v Val) {
	if v.Fn == nil {
		if a.fx.cellFns != nil {
			if _, ok := a.fx.cellFns[loc.Heap+"|"+loc.Obj]; ok {
				a.fx.cellFns[loc.Heap+"|"+loc.Obj] = Val{}
			}
		}
		return
	}
	// record: cell content has static function (used when a closure calls through a captured variable)
	if a.fx.cellFns == nil {
		a.fx.cellFns = map[string]Val{}
	}
	key := loc.Heap + "|" + loc.Obj
	if old, ok := a.fx.cellFns[key]; ok && (old.Fn != v.Fn || old.T != v.T) {
		a.fx.cellFns[key] = Val{} // stored twice with different functions: no static information
		return
	}
	a.fx.cellFns[key] = v
}

func (a *act) binop(in *ssa.BinOp, guard string, st *State) Val {
	x := a.val(in.X, st)
	y := a.val(in.Y, st)
	fx := a.fx
	bt := SBool
	switch in.Op {
	case token.EQL, token.NEQ:
		var t string
		switch x.S {
		case SSlice:
			// only comparison with nil is legal
			other := x
			if in.X.Type() == nil || isNilConst(in.X) {
				other = y
			}
			t = Eq(App("sbase", other.T), "null")
		case SFn:
			other := x
			if isNilConst(in.X) {
				other = y
			}
			t = Eq(other.T, "fn!nil")
			if other.Fn != nil {
				t = "false"
			}
		case SIface:
			switch {
			case isNilConst(in.X):
				t = Eq(App("itag", y.T), "0")
			case isNilConst(in.Y):
				t = Eq(App("itag", x.T), "0")
			default:
				t = Eq(x.T, y.T)
			}
		default:
			t = Eq(x.T, y.T)
		}
		if in.Op == token.NEQ {
			t = Not(t)
		}
		return Val{T: t, S: bt, GT: in.Type()}
	case token.LSS, token.LEQ, token.GTR, token.GEQ:
		op := map[token.Token]string{token.LSS: "<", token.LEQ: "<=", token.GTR: ">", token.GEQ: ">="}[in.Op]
		if x.S == SStr {
			return Val{T: fmt.Sprintf("(%s %s 0)", op, App("strcmp", x.T, y.T)), S: bt, GT: in.Type()}
		}
		if x.S != SInt && x.S != "Real" {
			unsupportedf("ordered comparison on %s", x.S)
		}
		return Val{T: fmt.Sprintf("(%s %s %s)", op, x.T, y.T), S: bt, GT: in.Type()}
	}
	if x.S == SStr && in.Op == token.ADD {
		t := App("strcat", x.T, y.T)
		fx.ctx.Assert(Eq(App("strlen", t), fmt.Sprintf("(+ (strlen %s) (strlen %s))", x.T, y.T)))
		return Val{T: a.bind(in, t, SStr), S: SStr, GT: in.Type()}
	}
	if x.S == SBool {
		switch in.Op {
		case token.AND:
			return Val{T: And(x.T, y.T), S: SBool, GT: in.Type()}
		case token.OR:
			return Val{T: Or(x.T, y.T), S: SBool, GT: in.Type()}
		}
	}
	if x.S == "Real" {
		fop := map[token.Token]string{token.ADD: "f64.add", token.SUB: "f64.sub", token.MUL: "f64.mul", token.QUO: "f64.div"}[in.Op]
		if fop == "" {
			unsupportedf("float binop %s", in.Op)
		}
		fx.eng.assume("float64 arithmetic is abstracted: conversions are monotone and exact up to 2^53, subtraction has the exact sign, everything else is uninterpreted")
		return Val{T: App(fop, x.T, y.T), S: "Real", GT: in.Type()}
	}
	ii, ok := intKind(in.Type())
	if !ok {
		unsupportedf("binop %s on %s", in.Op, in.Type())
	}
	var t string
	switch in.Op {
	case token.ADD:
		if phi, ok := in.X.(*ssa.Phi); ok && phi.Comment == "rangeindex" && y.T == "1" {
			// range counters stay below the length (auto-invariant, proved separately), so the increment cannot overflow
			return Val{T: fmt.Sprintf("(+ %s 1)", x.T), S: SInt, GT: in.Type()}
		}
		t = App(ii.wrapFn(), fmt.Sprintf("(+ %s %s)", x.T, y.T))
	case token.SUB:
		t = App(ii.wrapFn(), fmt.Sprintf("(- %s %s)", x.T, y.T))
	case token.MUL:
		t = App(ii.wrapFn(), fmt.Sprintf("(* %s %s)", x.T, y.T))
	case token.QUO, token.REM:
		what := a.oblName(in.Pos(), func(n ast.Node) bool { _, ok := n.(*ast.BinaryExpr); return ok })
		fx.addObl("div0", a.prefix()+what, guard, Not(Eq(y.T, "0")), in.Pos(), "division by zero")
		if in.Op == token.QUO {
			t = App(ii.wrapFn(), App("tdiv", x.T, y.T))
		} else {
			t = App("tmod", x.T, y.T)
		}
	default:
		// bit operations: uninterpreted but in range
		f := fx.ctx.DeclareFun("bitop!"+in.Op.String(), []Sort{SInt, SInt}, SInt)
		t = App(ii.wrapFn(), App(f, x.T, y.T))
	}
	return Val{T: a.bind(in, t, SInt), S: SInt, GT: in.Type()}
}

func isNilConst(v ssa.Value) bool {
	c, ok := v.(*ssa.Const)
	return ok && c.Value == nil
}

func (a *act) convert(in *ssa.Convert, guard string, st *State) Val {
	x := a.val(in.X, st)
	fx := a.fx
	from, to := in.X.Type(), in.Type()
	if ii, ok := intKind(to); ok {
		if _, ok2 := intKind(from); ok2 {
			return Val{T: App(ii.wrapFn(), x.T), S: SInt, GT: to}
		}
		if x.S == "Real" {
			t := App("f64.toint", x.T)
			fx.ctx.Assert(ii.rangeFact(t))
			return Val{T: t, S: SInt, GT: to}
		}
	}
	ts := a.sortOf(to)
	switch {
	case ts == SStr && x.S == SSlice: // string(bytes)
		return Val{T: App("str.ofbytes", App("bytesOf", x.T)), S: SStr, GT: to}
	case ts == SSlice && x.S == SStr: // []byte(string)
		r := fx.alloc(st, "bytes")
		sl := fmt.Sprintf("(mk-slice %s 0 (strlen %s))", r, x.T)
		fx.ctx.Assert(Eq(App("bytesOf", sl), App("bytes.ofstr", x.T)))
		return Val{T: a.bind(in, sl, SSlice), S: SSlice, GT: to}
	case ts == x.S:
		x.GT = to
		return x
	case ts == "Real" && x.S == SInt:
		return Val{T: App("f64.ofint", x.T), S: "Real", GT: to}
	case ts == "Real" && x.S == "Real":
		x.GT = to
		return x
	case ts == SStr && x.S == SInt:
		f := fx.ctx.DeclareFun("str.ofrune", []Sort{SInt}, SStr)
		return Val{T: App(f, x.T), S: SStr, GT: to}
	case ts == SRef && x.S == SRef:
		x.GT = to
		return x
	}
	unsupportedf("conversion %s -> %s", from, to)
	return Val{}
}

func (fx *FX) boxFn(s Sort) (string, string) {
	n := strings.NewReplacer("(", "_", ")", "_", " ", "_", "|", "").Replace(string(s))
	b := fx.ctx.DeclareFun("box!"+n, []Sort{s}, SRef)
	u := fx.ctx.DeclareFun("unbox!"+n, []Sort{SRef}, s)
	key := "boxax!" + n
	if !fx.ctx.declared[key] {
		fx.ctx.declared[key] = true
		fx.ctx.Assert(fmt.Sprintf("(forall ((x %s)) (! (and (= (%s (%s x)) x) (not (= (%s x) null))) :pattern ((%s x))))", s, u, b, b, b))
	}
	return b, u
}

func isPointerLike(t types.Type) bool {
	switch t.Underlying().(type) {
	case *types.Pointer, *types.Map, *types.Chan:
		return true
	}
	return false
}

func (a *act) makeIface(x Val, from types.Type, to types.Type) Val {
	fx := a.fx
	tag := fx.ctx.Tag(typeName(from))
	var t string
	if isPointerLike(from) {
		t = fmt.Sprintf("(mk-iface %s %s)", tag, x.T)
	} else {
		b, _ := fx.boxFn(x.S)
		t = fmt.Sprintf("(mk-iface %s %s)", tag, App(b, x.T))
	}
	return Val{T: t, S: SIface, GT: to, Fn: x.Fn, Bind: x.Bind, Dyn: from}
}

func (a *act) typeAssert(in *ssa.TypeAssert, guard string, st *State) Val {
	x := a.val(in.X, st)
	fx := a.fx
	at := in.AssertedType
	var ok, v string
	if _, isI := at.Underlying().(*types.Interface); isI {
		// interface-to-interface
		impls := fx.eng.implementers(at)
		srcClosed := fx.eng.isClosedIface(in.X.Type())
		if srcClosed {
			var alts []string
			alts = append(alts, Eq(App("itag", x.T), "0"))
			for _, c := range fx.eng.implementers(in.X.Type()) {
				alts = append(alts, Eq(App("itag", x.T), fx.ctx.Tag(typeName(c))))
			}
			fx.ctx.Assert(Imp(guard, Or(alts...)))
		}
		if len(impls) > 0 && (srcClosed || fx.eng.isClosedIface(at)) {
			var alts []string
			for _, c := range impls {
				alts = append(alts, Eq(App("itag", x.T), fx.ctx.Tag(typeName(c))))
			}
			ok = Or(alts...)
			fx.eng.assume("closed world: type assertion to " + typeName(at) + " succeeds exactly for module implementers")
		} else if types.AssignableTo(in.X.Type(), at) {
			ok = Not(Eq(App("itag", x.T), "0"))
		} else {
			c := fx.ctx.Fresh("assertok", SBool)
			ok = And(c, Not(Eq(App("itag", x.T), "0")))
		}
		v = x.T
	} else {
		ok = Eq(App("itag", x.T), fx.ctx.Tag(typeName(at)))
		if isPointerLike(at) {
			v = App("iref", x.T)
		} else {
			_, u := fx.boxFn(a.sortOf(at))
			v = App(u, App("iref", x.T))
		}
	}
	okc := fx.ctx.Declare(a.name(in)+"!ok", SBool)
	fx.ctx.Assert(Eq(okc, ok))
	vs := a.sortOf(at)
	if in.CommaOk {
		zero := fx.eng.zeroOf(at)
		return Val{S: "Tuple", Tuple: []Val{{T: Ite(okc, v, zero), S: vs, GT: at}, {T: okc, S: SBool}}}
	}
	what := a.oblName(in.Pos(), func(n ast.Node) bool { _, ok := n.(*ast.TypeAssertExpr); return ok })
	fx.addObl("assert-type", a.prefix()+what, guard, okc, in.Pos(), "type assertion may fail")
	return Val{T: v, S: vs, GT: at}
}

func (a *act) sliceOp(in *ssa.Slice, guard string, st *State) Val {
	x := a.val(in.X, st)
	fx := a.fx
	lo, hi := "0", ""
	if in.Low != nil {
		lo = a.val(in.Low, st).T
	}
	what := a.oblName(in.Pos(), func(n ast.Node) bool { _, ok := n.(*ast.SliceExpr); return ok })
	switch xt := in.X.Type().Underlying().(type) {
	case *types.Slice:
		ln := App("slen", x.T)
		if in.High != nil {
			hi = a.val(in.High, st).T
		} else {
			hi = ln
		}
		if !(in.Low == nil && in.High == nil) {
			fx.addObl("slice", a.prefix()+what, guard, fmt.Sprintf("(and (<= 0 %s) (<= %s %s) (<= %s %s))", lo, lo, hi, hi, ln), in.Pos(), "slice bounds out of range (cap modelled as len)")
		}
		t := fmt.Sprintf("(mk-slice (sbase %s) (+ (soff %s) %s) (- %s %s))", x.T, x.T, lo, hi, lo)
		v := Val{T: a.bind(in, t, SSlice), S: SSlice, GT: in.Type()}
		// index translation between a sub-slice and its parent (creates the parent index term for E-matching)
		fx.ctx.Assert(fmt.Sprintf("(forall ((i Int)) (! (= (sidx %s i) (sidx %s (+ %s i))) :pattern ((sidx %s i))))", v.T, x.T, lo, v.T))
		// and back: an index term of the parent creates the sub-slice index term (witness for "some element of the rest")
		fx.ctx.Assert(fmt.Sprintf("(forall ((i Int)) (! (= (sidx %s i) (sidx %s (- i %s))) :pattern ((sidx %s i))))", x.T, v.T, lo, x.T))
		return v
	case *types.Pointer:
		arr := xt.Elem().Underlying().(*types.Array)
		a.nilObl(x, guard, in.Pos(), what)
		if in.High != nil {
			hi = a.val(in.High, st).T
		} else {
			hi = fmt.Sprint(arr.Len())
		}
		if !(in.Low == nil && in.High == nil) {
			fx.addObl("slice", a.prefix()+what, guard, fmt.Sprintf("(and (<= 0 %s) (<= %s %s) (<= %s %d))", lo, lo, hi, hi, arr.Len()), in.Pos(), "slice bounds out of range")
		}
		t := fmt.Sprintf("(mk-slice %s %s (- %s %s))", x.T, lo, hi, lo)
		v := Val{T: a.bind(in, t, SSlice), S: SSlice, GT: in.Type()}
		if in.Low == nil && in.High == nil {
			v.CLen = int(arr.Len()) + 1
		}
		return v
	case *types.Basic:
		ln := App("strlen", x.T)
		if in.High != nil {
			hi = a.val(in.High, st).T
		} else {
			hi = ln
		}
		fx.addObl("slice", a.prefix()+what, guard, fmt.Sprintf("(and (<= 0 %s) (<= %s %s) (<= %s %s))", lo, lo, hi, hi, ln), in.Pos(), "string slice bounds out of range")
		f := fx.ctx.DeclareFun("substr", []Sort{SStr, SInt, SInt}, SStr)
		t := App(f, x.T, lo, hi)
		fx.ctx.Assert(Imp(guard, Eq(App("strlen", t), fmt.Sprintf("(- %s %s)", hi, lo))))
		return Val{T: t, S: SStr, GT: in.Type()}
	}
	unsupportedf("slice of %s", in.X.Type())
	return Val{}
}

func (a *act) mapHeaps(mt *types.Map) (has, val, ln string) {
	n := typeName(mt.Key()) + "!" + typeName(mt.Elem())
	return "MapHas!" + n, "MapVal!" + n, "MapLen!" + n
}

func (a *act) lookup(in *ssa.Lookup, guard string, st *State) Val {
	fx := a.fx
	x := a.val(in.X, st)
	k := a.val(in.Index, st)
	mt, ok := in.X.Type().Underlying().(*types.Map)
	if !ok {
		// string index
		what := a.oblName(in.Pos(), nil)
		fx.addObl("index", a.prefix()+what, guard, fmt.Sprintf("(and (<= 0 %s) (< %s (strlen %s)))", k.T, k.T, x.T), in.Pos(), "index out of range")
		f := fx.ctx.DeclareFun("str.at", []Sort{SStr, SInt}, SInt)
		return Val{T: App(f, x.T, k.T), S: SInt, GT: in.Type()}
	}
	has, val, _ := a.mapHeaps(mt)
	ks, vs := a.sortOf(mt.Key()), a.sortOf(mt.Elem())
	h := fx.sv(st, has, ArrS(SRef, ArrS(ks, SBool)))
	v := fx.sv(st, val, ArrS(SRef, ArrS(ks, vs)))
	hasT := And(Not(Eq(x.T, "null")), Sel(Sel(h, x.T), k.T))
	okc := fx.ctx.Declare(a.name(in)+"!has", SBool)
	fx.ctx.Assert(Eq(okc, hasT))
	valT := Ite(okc, Sel(Sel(v, x.T), k.T), fx.eng.zeroOf(mt.Elem()))
	valT = a.bind(in, valT, vs)
	if f := a.typeFacts(valT, mt.Elem()); f != "true" {
		fx.ctx.Assert(Imp(guard, f))
	}
	if in.CommaOk {
		return Val{S: "Tuple", Tuple: []Val{{T: valT, S: vs, GT: mt.Elem()}, {T: okc, S: SBool}}}
	}
	return Val{T: valT, S: vs, GT: mt.Elem()}
}

func (a *act) mapStore(m, k, v Val, mt *types.Map, st *State) {
	fx := a.fx
	has, val, ln := a.mapHeaps(mt)
	ks, vs := a.sortOf(mt.Key()), a.sortOf(mt.Elem())
	hS, vS, lS := ArrS(SRef, ArrS(ks, SBool)), ArrS(SRef, ArrS(ks, vs)), ArrS(SRef, SInt)
	h := fx.sv(st, has, hS)
	vv := fx.sv(st, val, vS)
	l := fx.sv(st, ln, lS)
	fx.setSV(st, ln, lS, Store(l, m.T, Ite(Sel(Sel(h, m.T), k.T), Sel(l, m.T), fmt.Sprintf("(+ %s 1)", Sel(l, m.T)))))
	fx.setSV(st, has, hS, Store(h, m.T, Store(Sel(h, m.T), k.T, "true")))
	fx.setSV(st, val, vS, Store(vv, m.T, Store(Sel(vv, m.T), k.T, v.T)))
}

func (a *act) rangeInit(in *ssa.Range, st *State) {
	mt, ok := in.X.Type().Underlying().(*types.Map)
	if !ok {
		unsupportedf("range over %s", in.X.Type())
	}
	fx := a.fx
	if a.ranges == nil {
		a.ranges = map[ssa.Value]*rangeInfo{}
	}
	has, val, _ := a.mapHeaps(mt)
	ks, vs := a.sortOf(mt.Key()), a.sortOf(mt.Elem())
	name := fmt.Sprintf("$visited%d", a.rangeN)
	a.rangeN++
	fx.sv(st, name, ArrS(ks, SBool))
	fx.setSV(st, name, ArrS(ks, SBool), fx.constArray(ks, SBool, "false"))
	a.ranges[in] = &rangeInfo{m: a.val(in.X, st), visited: name, ksort: ks, vsort: vs, has: has, val: val}
	a.vals[in] = Val{T: "rangeiter", S: SRef}
}

func (a *act) rangeNext(in *ssa.Next, guard string, st *State) Val {
	fx := a.fx
	ri := a.ranges[in.Iter]
	if ri == nil {
		unsupportedf("next on non-map iterator")
	}
	ok := fx.ctx.Declare(a.name(in)+"!ok", SBool)
	k := fx.ctx.Declare(a.name(in)+"!k", ri.ksort)
	h := fx.sv(st, ri.has, ArrS(SRef, ArrS(ri.ksort, SBool)))
	v := fx.sv(st, ri.val, ArrS(SRef, ArrS(ri.ksort, ri.vsort)))
	vis := fx.sv(st, ri.visited, ArrS(ri.ksort, SBool))
	hasM := func(key string) string { return And(Not(Eq(ri.m.T, "null")), Sel(Sel(h, ri.m.T), key)) }
	fx.ctx.Assert(Imp(guard, Imp(ok, And(hasM(k), Not(Sel(vis, k))))))
	fx.ctx.Assert(Imp(guard, Imp(Not(ok), fmt.Sprintf("(forall ((k %s)) (! (=> %s %s) :pattern (%s)))", ri.ksort, hasM("k"), Sel(vis, "k"), Sel(vis, "k")))))
	fx.setSV(st, ri.visited, ArrS(ri.ksort, SBool), Ite(ok, Store(vis, k, "true"), vis))
	mt := in.Iter.(*ssa.Range).X.Type().Underlying().(*types.Map)
	return Val{S: "Tuple", Tuple: []Val{{T: ok, S: SBool}, {T: k, S: ri.ksort, GT: mt.Key()}, {T: Sel(Sel(v, ri.m.T), k), S: ri.vsort, GT: mt.Elem()}}}
}

// lockObl emits the lockset obligation for guarded fields.
func (a *act) lockObl(loc *Loc, write bool, guard string, pos token.Pos, st *State) {
	if loc.FieldKey == "" {
		return
	}
	g, ok := a.fx.eng.guards[loc.FieldKey]
	if !ok {
		return
	}
	if !a.fx.lockMode {
		return
	}
	// lock field index
	parts := strings.Split(g.Lock, ".")
	lockField := parts[len(parts)-1]
	pkg := a.fx.eng.prog.AllPkgs[g.Pkg]
	tn := pkg.Types.Scope().Lookup(parts[0])
	stt := tn.Type().Underlying().(*types.Struct)
	idx := -1
	for i := 0; i < stt.NumFields(); i++ {
		if stt.Field(i).Name() == lockField {
			idx = i
		}
	}
	held := a.fx.sv(st, "held", ArrS(SRef, SInt))
	lk := fmt.Sprintf("(sub %s %d)", loc.Owner, idx)
	// held: 0 = not held by this thread, n > 0 = n read holds, -1 = write hold
	need := fmt.Sprintf("(not (= %s 0))", Sel(held, lk))
	if write {
		need = fmt.Sprintf("(= %s (- 1))", Sel(held, lk))
	}
	fresh := fmt.Sprintf("(>= (epoch %s) %s)", loc.Owner, a.fx.nowEntry)
	mode := "read"
	if write {
		mode = "write"
	}
	what := a.oblName(pos, func(n ast.Node) bool { _, ok := n.(*ast.SelectorExpr); return ok })
	a.fx.addObl("lock", a.prefix()+mode+" "+what, guard, Or(fresh, need), pos, "guarded field accessed without its lock")
}

// constArray is an array holding v everywhere (as a quantified constant: cvc5 rejects (as const) with non-literal values).
func (fx *FX) constArray(k, v Sort, val string) string {
	key := "constarr!" + string(k) + "!" + string(v) + "!" + val
	if c, ok := fx.constArrs[key]; ok {
		return c
	}
	c := fx.ctx.Fresh("constarr", ArrS(k, v))
	if val == "false" || val == "true" || val == "0" {
		// literal default: a theory constant array (accepted by z3 and cvc5), so select-over-store chains reduce by the array theory
		fx.ctx.Assert(fmt.Sprintf("(= %s ((as const %s) %s))", c, ArrS(k, v), val))
	} else {
		fx.ctx.Assert(fmt.Sprintf("(forall ((i %s)) (! (= (select %s i) %s) :pattern ((select %s i))))", k, c, val, c))
	}
	if fx.constArrs == nil {
		fx.constArrs = map[string]string{}
	}
	fx.constArrs[key] = c
	return c
}
