package main

import (
	"fmt"
	_ "golang.org/x/tools/go/packages"
	_ "golang.org/x/tools/go/ssa"
	_ "golang.org/x/tools/go/ssa/ssautil"
	_ "golang.org/x/tools/go/ast/astutil"
)

func main() { fmt.Println("govc") }
