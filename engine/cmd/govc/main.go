package main

import (
	"flag"
	"fmt"
	"os"
	"path/filepath"
	"sort"
	"strings"
	"time"
)

func verifDir() string {
	if d := os.Getenv("VERIF_DIR"); d != "" {
		return d
	}
	return "/verif"
}

func main() {
	if len(os.Args) < 2 {
		fmt.Fprintln(os.Stderr, "usage: govc verify|check|list ...")
		os.Exit(2)
	}
	switch os.Args[1] {
	case "verify":
		cmdVerify(os.Args[2:])
	case "check":
		os.Exit(cmdCheck(os.Args[2:]))
	case "list":
		cmdList(os.Args[2:])
	default:
		fmt.Fprintln(os.Stderr, "unknown command", os.Args[1])
		os.Exit(2)
	}
}

func loadAll() (*Program, *Engine) {
	t0 := time.Now()
	p, err := LoadProgram(repoDir())
	if err != nil {
		fmt.Fprintln(os.Stderr, "load:", err)
		os.Exit(2)
	}
	e, err := NewEngine(p, verifDir())
	if err != nil {
		fmt.Fprintln(os.Stderr, "specs:", err)
		os.Exit(2)
	}
	fmt.Fprintf(os.Stderr, "loaded %d module functions, %d contracts in %.1fs\n", len(p.ModFuncs), len(e.specs.Funcs), time.Since(t0).Seconds())
	return p, e
}

func cmdList(args []string) {
	p, e := loadAll()
	for _, fn := range p.ModFuncs {
		mark := " "
		if _, ok := e.specs.Funcs[FuncKey(fn)]; ok {
			mark = "C"
		}
		fmt.Printf("%s %s\n", mark, FuncKey(fn))
	}
}

func cmdVerify(args []string) {
	fs := flag.NewFlagSet("verify", flag.ExitOnError)
	lock := fs.Bool("lock", false, "lockset obligations")
	timeout := fs.Int("timeout", 10, "solver timeout (s)")
	dump := fs.Bool("dump", false, "dump queries of unproved obligations to /tmp/govc-dump")
	verbose := fs.Bool("v", false, "verbose")
	facets := fs.String("facet", "", "comma-separated contract facets to activate")
	fs.Parse(args)
	for _, f := range strings.Split(*facets, ",") {
		if f != "" {
			ActiveFacets[f] = true
		}
	}
	p, e := loadAll()
	var frs []*FuncResult
	for _, pat := range fs.Args() {
		matched := false
		for _, fn := range p.ModFuncs {
			k := FuncKey(fn)
			if k == pat || (strings.HasSuffix(pat, "*") && strings.HasPrefix(k, strings.TrimSuffix(pat, "*"))) {
				matched = true
				frs = append(frs, e.VerifyFunc(fn, e.specs.Funcs[k], *lock))
			}
		}
		if !matched {
			fmt.Fprintln(os.Stderr, "no function matches", pat)
		}
	}
	dir, _ := os.MkdirTemp("", "govc")
	defer os.RemoveAll(dir)
	keep := ""
	if *dump {
		keep = "/tmp/govc-dump"
	}
	Solve(frs, dir, *timeout, keep)
	for _, fr := range frs {
		printResult(fr, *verbose)
	}
}

func printResult(fr *FuncResult, verbose bool) {
	fmt.Printf("== %s  (%d obligations)\n", fr.Key, len(fr.Obls))
	if fr.Unsupported != "" {
		fmt.Printf("   UNSUPPORTED: %s\n", fr.Unsupported)
	}
	if fr.SpecError != "" {
		fmt.Printf("   SPEC ERROR: %s\n", fr.SpecError)
	}
	for _, d := range fr.Degraded {
		fmt.Printf("   DEGRADED: %s\n", d)
	}
	for _, u := range fr.Unknown {
		fmt.Printf("   unknown call: %s\n", u)
	}
	if verbose {
		fmt.Printf("   inlined: %s\n   contracts used: %s\n", strings.Join(fr.Inlined, ", "), strings.Join(fr.UsedSpecs, ", "))
	}
	sort.SliceStable(fr.Obls, func(i, j int) bool { return false })
	for _, o := range fr.Obls {
		if o.Verdict == "proved" && !verbose {
			continue
		}
		fmt.Printf("   %-9s %-60s %s %.2fs  %s\n", o.Verdict, o.Name, o.Solver, o.Seconds, posStr(o))
		if (o.Verdict == "refuted" || o.Verdict == "candidate") && o.Model != "" {
			fmt.Printf("      model: %s\n", firstLines(o.Model, 12))
		}
		if o.Verdict == "undecided" && verbose {
			fmt.Printf("      %s\n", o.Output)
		}
	}
	np := 0
	for _, o := range fr.Obls {
		if o.Verdict == "proved" {
			np++
		}
	}
	cov := ""
	if fr.Cover != nil {
		cov = " cover:" + fr.Cover.Verdict
	}
	fmt.Printf("   proved %d/%d%s\n", np, len(fr.Obls), cov)
}

func posStr(o *Obligation) string {
	if o.Pos.Filename == "" {
		return ""
	}
	return fmt.Sprintf("%s:%d", filepath.Base(o.Pos.Filename), o.Pos.Line)
}

