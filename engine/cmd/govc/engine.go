package main

import (
	"fmt"
	"regexp"
	"go/ast"
	"go/printer"
	"go/token"
	"go/types"
	"os"
	"path/filepath"
	"sort"
	"strings"

	"golang.org/x/tools/go/ast/astutil"
	"golang.org/x/tools/go/ssa"
)

// Engine holds everything shared by all functions of a run.
type Engine struct {
	prog         *Program
	specs        *SpecSet
	structDecls  map[string]string
	structOrder  []string
	implCache    map[string][]types.Type
	closedIfaces map[string]bool
	ghostSort    map[string]Sort
	funSigs      map[string]FunDecl
	guards       map[string]GuardDecl // "pkgpath.T.f" -> decl
	assumptions  map[string]bool      // assumptions used in this run (for evidence)
	verifDir     string
	globalStored map[*ssa.Global]bool
	srcLines     map[string][]string
}

func NewEngine(p *Program, verifDir string) (*Engine, error) {
	e := &Engine{prog: p, specs: NewSpecSet(), structDecls: map[string]string{}, implCache: map[string][]types.Type{},
		closedIfaces: map[string]bool{}, ghostSort: map[string]Sort{}, funSigs: map[string]FunDecl{}, guards: map[string]GuardDecl{},
		assumptions: map[string]bool{}, verifDir: verifDir}
	// global spec files from /verif/contracts
	files, _ := filepath.Glob(filepath.Join(verifDir, "contracts", "*.spec"))
	sort.Strings(files)
	for _, f := range files {
		data, err := os.ReadFile(f)
		if err != nil {
			return nil, err
		}
		var lines []SpecLine
		for i, l := range strings.Split(string(data), "\n") {
			lines = append(lines, SpecLine{File: f, Line: i + 1, Text: l})
		}
		// closed-interface declarations are handled here
		var rest []SpecLine
		for _, l := range lines {
			t := strings.TrimSpace(l.Text)
			if strings.HasPrefix(t, "closed ") {
				e.closedIfaces[strings.TrimSpace(strings.TrimPrefix(t, "closed "))] = true
				continue
			}
			rest = append(rest, l)
		}
		if err := e.specs.ParseSpecLines(rest, modPath, ""); err != nil {
			return nil, err
		}
	}
	// package contract files inside the repo
	var pkgs []string
	for path := range p.SpecSrc {
		pkgs = append(pkgs, path)
	}
	sort.Strings(pkgs)
	for _, path := range pkgs {
		if err := e.specs.ParseSpecLines(p.SpecSrc[path], path, shortPkg(path)); err != nil {
			return nil, err
		}
	}
	for _, g := range e.specs.Ghosts {
		e.ghostSort[g.Name] = Sort(g.Sort)
	}
	for _, f := range e.specs.Funs {
		e.funSigs[f.Name] = f
	}
	for _, g := range e.specs.Guarded {
		e.guards[shortPkg(g.Pkg)+"."+g.Field] = g
	}
	return e, nil
}

func (e *Engine) assume(s string) { e.assumptions[s] = true }

// Prelude renders base prelude + user sorts/functions + struct datatypes.
func (e *Engine) Prelude() string {
	var b strings.Builder
	b.WriteString(basePrelude)
	b.WriteString("(declare-const unit! Unit)\n(declare-const fn!nil Fn)\n")
	for _, s := range e.specs.Sorts {
		fmt.Fprintf(&b, "(declare-sort %s 0)\n", s)
	}
	for _, n := range e.structOrder {
		b.WriteString(e.structDecls[n])
	}
	for _, q := range e.specs.SeqSorts {
		b.WriteString(seqSortDecls(q))
	}
	for _, f := range e.specs.Funs {
		fmt.Fprintf(&b, "(declare-fun %s (%s) %s)\n", f.Name, strings.Join(f.Args, " "), f.Ret)
	}
	return b.String()
}

// ---------- values and state ----------

type Val struct {
	T     string
	S     Sort
	GT    types.Type
	Fn    *ssa.Function
	Bind  []Val
	Tuple []Val
	Loc   *Loc
	Dyn   types.Type // dynamic type inside an interface value, when statically known
	CLen  int        // 1 + statically known length of a slice value (slice literal), 0 = unknown
}

type Loc struct {
	Heap string // state variable name
	Obj  string // Ref term
	Idx  string // optional index term (element heaps)
	GT   types.Type
	// guarded-field bookkeeping
	FieldKey string // pkg.T.f
	Owner    string // object term owning the field
}

type State struct {
	vars map[string]string
}

func (s *State) clone() *State {
	n := &State{vars: make(map[string]string, len(s.vars))}
	for k, v := range s.vars {
		n.vars[k] = v
	}
	return n
}

// Obligation is one proof obligation.
type Obligation struct {
	Func     string
	Name     string
	Kind     string
	Guard    string
	Goal     string
	NAsserts int
	Pos      token.Position
	Note     string
	// results
	Verdict string // proved refuted undecided
	Solver  string
	Seconds float64
	Model   string
	Relaxed bool
	NoRetry bool
	Output  string
}

// FX verifies one function.
type FX struct {
	eng      *Engine
	ctx      *Ctx
	fn       *ssa.Function
	spec     *FuncSpec
	key      string
	obls     []*Obligation
	svSort   map[string]Sort
	entry    *State
	nowEntry string
	actN     int
	names    map[string]int
	inlined  map[string]bool
	usedSpec map[string]bool
	trusted  map[string]bool
	notes    []string
	modified map[string]bool // state vars modified anywhere (for frame obligations)
	stack    []*ssa.Function
	covers   []*Obligation
	inGo     int
	cellFns  map[string]Val
	lockMode bool
	unknown  []string
	unknownSeen bool // an unknown call was executed: state touched for the first time afterwards is arbitrary too
	axioms   []string
	constArrs map[string]string
	cwSeen   map[*ssa.Function]bool
	known    map[string]bool
	oblAssumes map[int]bool
	degraded []string
}

func (e *Engine) newFX(fn *ssa.Function, spec *FuncSpec) *FX {
	fx := &FX{eng: e, ctx: NewCtx(), fn: fn, spec: spec, key: FuncKey(fn), svSort: map[string]Sort{}, names: map[string]int{},
		inlined: map[string]bool{}, usedSpec: map[string]bool{}, trusted: map[string]bool{}, modified: map[string]bool{}}
	return fx
}

// sv returns the current term of a state variable, declaring its entry constant lazily.
func (fx *FX) sv(st *State, name string, srt Sort) string {
	if t, ok := st.vars[name]; ok {
		return t
	}
	if old, ok := fx.svSort[name]; ok && old != srt {
		panic(fmt.Sprintf("state var %s used at sorts %s and %s", name, old, srt))
	}
	fx.svSort[name] = srt
	c := fx.ctx.Declare(name+"@entry", srt)
	if _, seen := fx.entry.vars[name]; !seen {
		fx.entry.vars[name] = c
		fx.entryFacts(name, srt, c)
	}
	st.vars[name] = c
	if fx.unknownSeen {
		// a call without contract was executed earlier in this function: it may have changed any part of the state,
		// also the parts that are looked at for the first time only now
		f := fx.ctx.Fresh(name, srt)
		st.vars[name] = f
		fx.modified[name] = true
		return f
	}
	return c
}

// entryFacts: well-formedness of the entry heap: everything stored in it was allocated before entry.
func (fx *FX) entryFacts(name string, srt Sort, c string) {
	fx.heapAllocFacts(srt, c, fx.nowEntry, "true")
}

// heapAllocFacts: everything stored in a heap array (at allocated objects) was itself allocated before `now`.
func (fx *FX) heapAllocFacts(srt Sort, c string, n0 string, guard string) {
	k, v, ok := splitArr(srt)
	if !ok || k != SRef {
		return
	}
	// (no caching per heap version: objects created by a callee live in unwritten versions, and their cells become
	// known-allocated only through the emission that follows the call)
	before := len(fx.ctx.asserts)
	defer func() {
		if guard != "true" {
			for i := before; i < len(fx.ctx.asserts); i++ {
				fx.ctx.asserts[i] = Imp(guard, fx.ctx.asserts[i])
			}
		}
	}()
	switch v {
	case SRef:
		fx.ctx.Assert(fmt.Sprintf("(forall ((o Ref)) (! (=> (< (epoch o) %s) (< (epoch (select %s o)) %s)) :pattern ((select %s o))))", n0, c, n0, c))
	case SIface:
		fx.ctx.Assert(fmt.Sprintf("(forall ((o Ref)) (! (=> (< (epoch o) %s) (< (epoch (iref (select %s o))) %s)) :pattern ((select %s o))))", n0, c, n0, c))
	case SSlice:
		fx.ctx.Assert(fmt.Sprintf("(forall ((o Ref)) (! (=> (< (epoch o) %s) (and (< (epoch (sbase (select %s o))) %s) (>= (slen (select %s o)) 0) (>= (soff (select %s o)) 0))) :pattern ((select %s o))))", n0, c, n0, c, c, c))
	}
	if k2, v2, ok2 := splitArr(v); ok2 {
		switch v2 {
		case SRef:
			fx.ctx.Assert(fmt.Sprintf("(forall ((o Ref) (i %s)) (! (=> (< (epoch o) %s) (< (epoch (select (select %s o) i)) %s)) :pattern ((select (select %s o) i))))", k2, n0, c, n0, c))
		case SIface:
			fx.ctx.Assert(fmt.Sprintf("(forall ((o Ref) (i %s)) (! (=> (< (epoch o) %s) (< (epoch (iref (select (select %s o) i))) %s)) :pattern ((select (select %s o) i))))", k2, n0, c, n0, c))
		}
	}
}

func (fx *FX) setSV(st *State, name string, srt Sort, term string) {
	fx.sv(st, name, srt) // make sure it is registered
	c := fx.ctx.Fresh(name, srt)
	fx.ctx.Assert(Eq(c, term))
	st.vars[name] = c
	fx.modified[name] = true
}

func (fx *FX) havocSV(st *State, name string, srt Sort) string {
	fx.sv(st, name, srt)
	c := fx.ctx.Fresh(name, srt)
	st.vars[name] = c
	fx.modified[name] = true
	return c
}

// mergeStates builds the state at a join of guarded states.
func (fx *FX) mergeStates(conds []string, sts []*State) *State {
	if len(sts) == 1 {
		return sts[0].clone()
	}
	out := &State{vars: map[string]string{}}
	names := map[string]bool{}
	for _, s := range sts {
		for k := range s.vars {
			names[k] = true
		}
	}
	for _, name := range sortedKeys(names) {
		srt := fx.svSort[name]
		var terms []string
		same := true
		for _, s := range sts {
			t := fx.sv(s, name, srt)
			terms = append(terms, t)
			if t != terms[0] {
				same = false
			}
		}
		if same {
			out.vars[name] = terms[0]
			continue
		}
		c := fx.ctx.Fresh(name, srt)
		for i, t := range terms {
			fx.ctx.Assert(Imp(conds[i], Eq(c, t)))
		}
		out.vars[name] = c
	}
	return out
}

func (fx *FX) now(st *State) string { return fx.sv(st, "$now", SInt) }

// alloc yields a fresh non-null reference.
func (fx *FX) alloc(st *State, hint string) string {
	r := fx.ctx.Fresh("new!"+hint, SRef)
	now := fx.now(st)
	fx.ctx.Assert(And(Not(Eq(r, "null")), Eq(App("epoch", r), now), Eq(App("sub.base", r), r), Eq(App("root", r), r)))
	// allocation is unique: everything with this allocation time is (part of) this object
	fx.ctx.Assert(fmt.Sprintf("(forall ((o Ref)) (! (=> (= (epoch o) %s) (= (root o) %s)) :pattern ((epoch o))))", now, r))
	fx.setSV(st, "$now", SInt, fmt.Sprintf("(+ %s 1)", now))
	if fx.lockMode {
		// a freshly allocated object's locks are not held by anybody
		h := fx.sv(st, "held", ArrS(SRef, SInt))
		fx.ctx.Assert(fmt.Sprintf("(forall ((o Ref)) (! (=> (= (root o) %s) (= (select %s o) 0)) :pattern ((select %s o))))", r, h, h))
	}
	return r
}

// addObl records an obligation and assumes it afterwards.
func (fx *FX) addObl(kind, name, guard, goal string, pos token.Pos, note string) *Obligation {
	if goal == "true" || guard == "false" {
		return nil
	}
	full := kind + ":" + name
	fx.names[full]++
	if n := fx.names[full]; n > 1 {
		full = fmt.Sprintf("%s#%d", full, n)
	}
	o := &Obligation{Func: fx.key, Name: full, Kind: kind, Guard: guard, Goal: fx.residualGoal(goal), NAsserts: len(fx.ctx.asserts), Note: note}
	if pos.IsValid() {
		o.Pos = fx.eng.prog.Fset.Position(pos)
	}
	if o.Goal == "true" {
		o.Verdict, o.Solver = "proved", "syntactic(identical to an assumed fact)"
	}
	fx.obls = append(fx.obls, o)
	if fx.oblAssumes == nil {
		fx.oblAssumes = map[int]bool{}
	}
	if kind == "atomic" {
		// not assumed afterwards: the ghost counter is overwritten right after the check, and assuming a failed
		// "not yet acquired" next to "acquired" would make everything that follows vacuously true (a recorded known
		// finding of this kind must not mask later obligations of the same function)
		return o
	}
	before := len(fx.ctx.asserts)
	fx.ctx.Assert(Imp(guard, goal))
	if len(fx.ctx.asserts) > before {
		fx.oblAssumes[before] = true
	}
	return o
}

// srcText returns normalised source text of the smallest expression enclosing pos.
func (e *Engine) srcText(pos token.Pos, want func(ast.Node) bool) string {
	if !pos.IsValid() {
		return "?"
	}
	p := e.prog.Fset.Position(pos)
	f := e.prog.Files[p.Filename]
	if f == nil {
		return "?"
	}
	path, _ := astutil.PathEnclosingInterval(f, pos, pos+1)
	for _, n := range path {
		if want == nil || want(n) {
			if _, ok := n.(ast.Expr); ok {
				var b strings.Builder
				printer.Fprint(&b, e.prog.Fset, n)
				return normSpace(b.String())
			}
		}
	}
	return "?"
}

func normSpace(s string) string {
	s = strings.Join(strings.Fields(s), " ")
	if len(s) > 100 {
		s = s[:100] + "…"
	}
	return s
}

// residualGoal drops the conjuncts of a goal that are literally among the unconditional facts (preconditions).
func (fx *FX) residualGoal(goal string) string {
	if fx.known == nil {
		return goal
	}
	var rest []string
	for _, c := range flattenAnd(goal) {
		if !fx.known[canonBound(c)] {
			rest = append(rest, c)
		}
	}
	return And(rest...)
}

func (fx *FX) noteKnown(t string) {
	if fx.known == nil {
		fx.known = map[string]bool{}
	}
	for _, c := range flattenAnd(t) {
		fx.known[canonBound(c)] = true
	}
}

var boundRe = regexp.MustCompile(`![bl][0-9]+\b`)

// canonBound renames quantified variables (x!q17) by order of first occurrence, so alpha-equivalent copies compare equal.
func canonBound(t string) string {
	m := map[string]string{}
	return boundRe.ReplaceAllStringFunc(t, func(s string) string {
		if r, ok := m[s]; ok {
			return r
		}
		r := fmt.Sprintf("!c%d", len(m))
		m[s] = r
		return r
	})
}

// seqSortDecls: the theory of an abstract sequence sort N over element sort T.  seqOf!N(row, s) is the content of slice s in
// the element heap row of its base object; sequences are equal exactly when they have the same length and the same elements
// (extensionality is triggered by the marker seqext!N, which the spec builtin sameseq() and every pair of seqOf terms introduce).
func seqSortDecls(q SeqSort) string {
	n, t := q.Name, q.Elem
	r := strings.NewReplacer("$N", n, "$T", t)
	return r.Replace(`(declare-fun seqOf!$N ((Array Int $T) Slice) $N)
(declare-fun seqlen!$N ($N) Int)
(declare-fun seqat!$N ($N Int) $T)
(declare-fun seqext!$N ($N $N) Bool)
(declare-fun seqdiff!$N ($N $N) Int)
(assert (forall ((r (Array Int $T)) (s Slice)) (! (= (seqlen!$N (seqOf!$N r s)) (ite (>= (slen s) 0) (slen s) 0)) :pattern ((seqOf!$N r s)))))
(assert (forall ((q $N)) (! (>= (seqlen!$N q) 0) :pattern ((seqlen!$N q)))))
(assert (forall ((r (Array Int $T)) (s Slice) (i Int)) (! (=> (and (<= 0 i) (< i (slen s))) (= (seqat!$N (seqOf!$N r s) i) (select r (sidx s i)))) :pattern ((seqOf!$N r s) (sidx s i)) :pattern ((seqat!$N (seqOf!$N r s) i)))))
(assert (forall ((a $N) (b $N)) (! (= (seqext!$N a b) (= a b)) :pattern ((seqext!$N a b)))))
(assert (forall ((a $N) (b $N)) (! (=> (and (= (seqlen!$N a) (seqlen!$N b)) (=> (and (<= 0 (seqdiff!$N a b)) (< (seqdiff!$N a b) (seqlen!$N a))) (= (seqat!$N a (seqdiff!$N a b)) (seqat!$N b (seqdiff!$N a b))))) (= a b)) :pattern ((seqext!$N a b)))))
(assert (forall ((r1 (Array Int $T)) (s Slice) (r2 (Array Int $T)) (t Slice)) (! (= (seqext!$N (seqOf!$N r1 s) (seqOf!$N r2 t)) (= (seqOf!$N r1 s) (seqOf!$N r2 t))) :pattern ((seqOf!$N r1 s) (seqOf!$N r2 t)))))
`)
}

func (e *Engine) seqSortFor(elem Sort) (SeqSort, bool) {
	for _, q := range e.specs.SeqSorts {
		if Sort(q.Elem) == elem {
			return q, true
		}
	}
	return SeqSort{}, false
}

func (e *Engine) seqSortNamed(n Sort) (SeqSort, bool) {
	for _, q := range e.specs.SeqSorts {
		if Sort(q.Name) == n {
			return q, true
		}
	}
	return SeqSort{}, false
}
