package main

import (
	"fmt"
	"go/types"
	"strings"
)

// typeName gives a compact stable name of a Go type for heap-array naming.
// deepUnalias removes type aliases everywhere in a type expression (type Entry = iface.IPFSLogEntry must name one heap).
func deepUnalias(t types.Type) types.Type {
	t = types.Unalias(t)
	switch u := t.(type) {
	case *types.Pointer:
		return types.NewPointer(deepUnalias(u.Elem()))
	case *types.Slice:
		return types.NewSlice(deepUnalias(u.Elem()))
	case *types.Array:
		return types.NewArray(deepUnalias(u.Elem()), u.Len())
	case *types.Map:
		return types.NewMap(deepUnalias(u.Key()), deepUnalias(u.Elem()))
	case *types.Chan:
		return types.NewChan(u.Dir(), deepUnalias(u.Elem()))
	}
	return t
}

func typeName(t types.Type) string {
	t = deepUnalias(t)
	s := types.TypeString(t, func(p *types.Package) string {
		path := p.Path()
		if path == modPath {
			return "ipfslog"
		}
		if strings.HasPrefix(path, modPath+"/") {
			return strings.TrimPrefix(path, modPath+"/")
		}
		// last two path elements keep names short but unambiguous enough
		parts := strings.Split(path, "/")
		if len(parts) > 2 {
			parts = parts[len(parts)-2:]
		}
		return strings.Join(parts, "/")
	})
	return s
}

func isNamed(t types.Type, pkgSuffix, name string) bool {
	n, ok := t.(*types.Named)
	if !ok {
		if a, ok2 := t.(*types.Alias); ok2 {
			return isNamed(types.Unalias(a), pkgSuffix, name)
		}
		return false
	}
	if n.Obj().Name() != name || n.Obj().Pkg() == nil {
		return false
	}
	return strings.HasSuffix(n.Obj().Pkg().Path(), pkgSuffix)
}

func isCid(t types.Type) bool { return isNamed(t, "ipfs/go-cid", "Cid") }

// isOpaqueStruct reports struct types that are treated as identity-only objects (sync primitives).
func isOpaqueStruct(t types.Type) bool {
	n, ok := types.Unalias(t).(*types.Named)
	if !ok || n.Obj().Pkg() == nil {
		return false
	}
	switch n.Obj().Pkg().Path() {
	case "sync", "sync/atomic", "golang.org/x/sync/semaphore":
		return true
	}
	return false
}

type intInfo struct {
	bits   int
	signed bool
}

func intKind(t types.Type) (intInfo, bool) {
	b, ok := t.Underlying().(*types.Basic)
	if !ok {
		return intInfo{}, false
	}
	switch b.Kind() {
	case types.Int, types.Int64, types.UntypedInt, types.UntypedRune:
		return intInfo{64, true}, true
	case types.Int32:
		return intInfo{32, true}, true
	case types.Int16:
		return intInfo{16, true}, true
	case types.Int8:
		return intInfo{8, true}, true
	case types.Uint, types.Uint64, types.Uintptr:
		return intInfo{64, false}, true
	case types.Uint32:
		return intInfo{32, false}, true
	case types.Uint16:
		return intInfo{16, false}, true
	case types.Uint8:
		return intInfo{8, false}, true
	}
	return intInfo{}, false
}

func (ii intInfo) wrapFn() string {
	s := "S"
	if !ii.signed {
		s = "U"
	}
	return fmt.Sprintf("wrap%s%d", s, ii.bits)
}

func (ii intInfo) rangeFact(t string) string {
	var lo, hi string
	if ii.signed {
		switch ii.bits {
		case 64:
			lo, hi = "(- 9223372036854775808)", "9223372036854775807"
		case 32:
			lo, hi = "(- 2147483648)", "2147483647"
		case 16:
			lo, hi = "(- 32768)", "32767"
		case 8:
			lo, hi = "(- 128)", "127"
		}
	} else {
		lo = "0"
		switch ii.bits {
		case 64:
			hi = "18446744073709551615"
		case 32:
			hi = "4294967295"
		case 16:
			hi = "65535"
		case 8:
			hi = "255"
		}
	}
	return fmt.Sprintf("(and (<= %s %s) (<= %s %s))", lo, t, t, hi)
}

type unsupported struct{ msg string }

func (u unsupported) Error() string { return u.msg }

func unsupportedf(format string, a ...any) { panic(unsupported{fmt.Sprintf(format, a...)}) }

// SortOf maps a Go type to an SMT sort.
func (e *Engine) SortOf(t types.Type) Sort {
	t = types.Unalias(t)
	if isCid(t) {
		return SCid
	}
	switch u := t.Underlying().(type) {
	case *types.Basic:
		if _, ok := intKind(t); ok {
			return SInt
		}
		switch u.Kind() {
		case types.Bool, types.UntypedBool:
			return SBool
		case types.String, types.UntypedString:
			return SStr
		case types.UnsafePointer:
			return SRef
		case types.UntypedNil:
			return SRef
		case types.Float64, types.Float32, types.UntypedFloat:
			return "Real"
		}
		unsupportedf("basic type %s", t)
	case *types.Pointer, *types.Map, *types.Chan:
		return SRef
	case *types.Signature:
		return SFn
	case *types.Slice:
		return SSlice
	case *types.Interface:
		return SIface
	case *types.Array:
		return ArrS(SInt, e.SortOf(u.Elem()))
	case *types.Struct:
		return e.structSort(t, u)
	case *types.Tuple:
		return "Tuple"
	}
	unsupportedf("type %s", t)
	return ""
}

// structSort declares (once per engine) a datatype for a struct value type.
func (e *Engine) structSort(t types.Type, st *types.Struct) Sort {
	name := "S!" + typeName(t)
	name = quoteSym(name)
	if _, ok := e.structDecls[name]; ok {
		return Sort(name)
	}
	e.structDecls[name] = "" // reserve (recursion guard)
	var fs []string
	for i := 0; i < st.NumFields(); i++ {
		f := st.Field(i)
		var fsrt Sort
		if isOpaqueStruct(f.Type()) {
			fsrt = SUnit
		} else {
			fsrt = e.SortOf(f.Type())
		}
		fs = append(fs, fmt.Sprintf("(%s %s)", e.structSel(name, i), fsrt))
	}
	if len(fs) == 0 {
		fs = append(fs, fmt.Sprintf("(%s Unit)", e.structSel(name, 0)))
	}
	e.structDecls[name] = fmt.Sprintf("(declare-datatypes ((%s 0)) (((%s %s))))\n", name, e.structMk(name), strings.Join(fs, " "))
	e.structOrder = append(e.structOrder, name)
	return Sort(name)
}

func (e *Engine) structMk(sortName string) string {
	return quoteSym("mk!" + strings.Trim(sortName, "|"))
}
func (e *Engine) structSel(sortName string, i int) string {
	return quoteSym(fmt.Sprintf("f%d!%s", i, strings.Trim(sortName, "|")))
}

// zeroOf gives the zero value term of a Go type.
func (e *Engine) zeroOf(t types.Type) string {
	t = types.Unalias(t)
	if isCid(t) {
		return "cid!undef"
	}
	switch u := t.Underlying().(type) {
	case *types.Basic:
		if _, ok := intKind(t); ok {
			return "0"
		}
		switch u.Kind() {
		case types.Bool, types.UntypedBool:
			return "false"
		case types.String, types.UntypedString:
			return "str!empty"
		case types.Float64, types.Float32:
			return "0.0"
		}
		return "null"
	case *types.Pointer, *types.Map, *types.Chan:
		return "null"
	case *types.Signature:
		return "fn!nil"
	case *types.Slice:
		return "nil!slice"
	case *types.Interface:
		return "nil!iface"
	case *types.Array:
		unsupportedf("zero value of array type %s", t)
		return ""
	case *types.Struct:
		srt := e.SortOf(t)
		var as []string
		for i := 0; i < u.NumFields(); i++ {
			if isOpaqueStruct(u.Field(i).Type()) {
				as = append(as, "unit!")
			} else {
				as = append(as, e.zeroOf(u.Field(i).Type()))
			}
		}
		if len(as) == 0 {
			as = append(as, "unit!")
		}
		return App(e.structMk(string(srt)), as...)
	}
	unsupportedf("zero of %s", t)
	return ""
}

// implementers returns the concrete module types (T or *T) implementing a module interface.
func (e *Engine) implementers(it types.Type) []types.Type {
	key := it.String()
	if r, ok := e.implCache[key]; ok {
		return r
	}
	iface, ok := it.Underlying().(*types.Interface)
	if !ok {
		return nil
	}
	var out []types.Type
	seen := map[string]bool{}
	for path, pp := range e.prog.AllPkgs {
		if !isModulePkg(path) {
			continue
		}
		sc := pp.Types.Scope()
		for _, name := range sc.Names() {
			tn, ok := sc.Lookup(name).(*types.TypeName)
			if !ok || tn.IsAlias() {
				continue
			}
			T := tn.Type()
			if _, isI := T.Underlying().(*types.Interface); isI {
				continue
			}
			for _, cand := range []types.Type{T, types.NewPointer(T)} {
				if types.Implements(cand, iface) && !seen[cand.String()] {
					// prefer value type when both implement
					if _, isPtr := cand.(*types.Pointer); isPtr && seen[T.String()] {
						continue
					}
					seen[cand.String()] = true
					out = append(out, cand)
				}
			}
		}
	}
	// pointer receiver types: if T implements, *T also does; keep only *T when methods have pointer receivers in practice.
	// Heuristic: if both T and *T implement, values in this code base are always pointers for struct types.
	var filtered []types.Type
	for _, c := range out {
		if _, isPtr := c.(*types.Pointer); !isPtr {
			if _, isStruct := c.Underlying().(*types.Struct); isStruct {
				c = types.NewPointer(c)
			}
		}
		dup := false
		for _, f := range filtered {
			if types.Identical(f, c) {
				dup = true
			}
		}
		if !dup {
			filtered = append(filtered, c)
		}
	}
	e.implCache[key] = filtered
	return filtered
}

func (e *Engine) isClosedIface(t types.Type) bool {
	n, ok := types.Unalias(t).(*types.Named)
	if !ok || n.Obj().Pkg() == nil {
		return false
	}
	return e.closedIfaces[shortPkg(n.Obj().Pkg().Path())+"."+n.Obj().Name()]
}
