package main

import (
	"bytes"
	"context"
	"encoding/json"
	"fmt"
	"os"
	"os/exec"
	"path/filepath"
	"strings"
	"text/template"
	"time"
)

type ReplayFile struct {
	Property    string            `json:"property"`
	Obligation  string            `json:"obligation"`
	Function    string            `json:"function"`
	Kind        string            `json:"kind"`
	Verdict     string            `json:"verdict"`
	Solver      string            `json:"solver"`
	Note        string            `json:"note"`
	Position    string            `json:"position"`
	Observed    map[string]string `json:"observed,omitempty"`
	RawModel    string            `json:"raw_model,omitempty"`
	SolverOut   string            `json:"solver_output"`
	SMT         string            `json:"smt2,omitempty"`
	Driver      string            `json:"driver,omitempty"`
	TestPkgDir  string            `json:"test_pkg_dir,omitempty"`
	TestSource  string            `json:"test_source,omitempty"`
	Outcome     string            `json:"replay_outcome"`
	Reproduced  bool              `json:"reproduced"`
	ReplayLog   string            `json:"replay_log,omitempty"`
	Path        string            `json:"-"`
}

// parseGetValue parses "((t1 v1) (t2 v2) ...)" and returns the values in order.
func parseGetValue(out string) []string {
	i := strings.Index(out, "((")
	if i < 0 {
		return nil
	}
	s := out[i:]
	// tokenise into s-expressions
	var vals []string
	depth := 0
	start := -1
	var items []string
	inq := false
	for j := 0; j < len(s); j++ {
		c := s[j]
		if c == '|' {
			inq = !inq
		}
		if inq {
			continue
		}
		if c == '(' {
			depth++
			if depth == 2 {
				start = j
			}
		} else if c == ')' {
			if depth == 2 && start >= 0 {
				items = append(items, s[start:j+1])
				start = -1
			}
			depth--
			if depth == 0 {
				break
			}
		}
	}
	for _, it := range items {
		// (term value): split at top level into two s-exprs
		inner := strings.TrimSpace(it[1 : len(it)-1])
		parts := splitSexprs(inner)
		if len(parts) >= 2 {
			vals = append(vals, parts[len(parts)-1])
		} else {
			vals = append(vals, "")
		}
	}
	return vals
}

func splitSexprs(s string) []string {
	var out []string
	depth := 0
	start := -1
	inq := false
	for j := 0; j < len(s); j++ {
		c := s[j]
		if c == '|' {
			inq = !inq
			if start < 0 {
				start = j
			}
			continue
		}
		if inq {
			continue
		}
		switch {
		case c == '(':
			if depth == 0 && start < 0 {
				start = j
			}
			depth++
		case c == ')':
			depth--
			if depth == 0 {
				out = append(out, s[start:j+1])
				start = -1
			}
		case c == ' ' || c == '\n' || c == '\t':
			if depth == 0 && start >= 0 {
				out = append(out, s[start:j])
				start = -1
			}
		default:
			if start < 0 {
				start = j
			}
		}
	}
	if start >= 0 {
		out = append(out, s[start:])
	}
	return out
}

// smtIntToGo converts "(- 5)" to "-5".
func smtIntToGo(v string) string {
	v = strings.TrimSpace(v)
	if strings.HasPrefix(v, "(-") {
		return "-" + strings.TrimSpace(strings.TrimSuffix(strings.TrimPrefix(v, "(-"), ")"))
	}
	return v
}

var replaysRun int

func writeReplay(vd, replaysDir, prop string, fr *FuncResult, o *Obligation, cfg CheckCfg, e *Engine) *ReplayFile {
	dir := filepath.Join(replaysDir, prop)
	os.MkdirAll(dir, 0o755)
	rp := &ReplayFile{Property: prop, Obligation: o.Name, Function: fr.Key, Kind: o.Kind, Verdict: o.Verdict, Solver: o.Solver, Note: o.Note,
		Position: posStr(o), SolverOut: o.Output, RawModel: o.Model}
	rp.Path = filepath.Join(dir, safeFile(fr.Key+"__"+o.Name)+".json")
	smt := filepath.Join(dir, "smt", safeFile(fr.Key+"__"+o.Name)+".smt2")
	if _, err := os.Stat(smt); err == nil {
		rp.SMT = smt
	}
	if o.Model != "" {
		vals := parseGetValue(o.Model)
		rp.Observed = map[string]string{}
		for i, ob := range fr.Observes {
			if i < len(vals) {
				rp.Observed[ob.Name] = vals[i]
			}
		}
	}
	// driver
	driver := ""
	if sp := e.specs.Funcs[fr.Key]; sp != nil {
		driver = sp.Replay
	}
	for pat, d := range cfg.Replay {
		if globMatch(pat, fr.Key+"/"+o.Name) {
			driver = d
		}
	}
	rp.Driver = driver
	rp.Outcome = "no replay driver for this obligation: violation reported from the failed proof obligation alone"
	if driver != "" {
		// replaying costs a build of the package under test: the first failing obligations of a check are replayed, the
		// others are reported from the failed obligation alone (their replay file still names it and carries the solver output)
		if replaysRun < 6 {
			replaysRun++
			runDriver(vd, rp)
		} else {
			rp.Outcome = "replay not run: 6 failing obligations of this check were replayed already; violation reported from the failed proof obligation alone"
		}
	}
	d, _ := json.MarshalIndent(rp, "", " ")
	os.WriteFile(rp.Path, d, 0o644)
	return rp
}

// runDriver instantiates /verif/replay/<driver>.tmpl (first line: "//pkgdir: <dir relative to repo>") and runs it by overlay.
func runDriver(vd string, rp *ReplayFile) {
	tfile := filepath.Join(vd, "replay", rp.Driver+".tmpl")
	data, err := os.ReadFile(tfile)
	if err != nil {
		rp.Outcome = "replay driver template missing: " + tfile
		return
	}
	text := string(data)
	pkgdir := "."
	if strings.HasPrefix(text, "//pkgdir:") {
		nl := strings.Index(text, "\n")
		pkgdir = strings.TrimSpace(text[len("//pkgdir:"):nl])
		text = text[nl+1:]
	}
	funcs := template.FuncMap{
		"int": func(name string, def string) string {
			v, ok := rp.Observed[name]
			if !ok || v == "" {
				return def
			}
			g := smtIntToGo(v)
			for _, c := range g {
				if !(c == '-' || c >= '0' && c <= '9') {
					return def
				}
			}
			return g
		},
		"isnil": func(name string) bool {
			v := rp.Observed[name]
			nullv := rp.Observed["$null"]
			return v == "null" || (nullv != "" && v == nullv) || strings.Contains(v, "(mk-iface 0") || strings.HasPrefix(v, "(mk-slice null") || (nullv != "" && strings.HasPrefix(v, "(mk-slice "+nullv+" "))
		},
		"raw":  func(name string) string { return rp.Observed[name] },
		"bool": func(name string) string { return rp.Observed[name] },
		"has":  func(name string) bool { _, ok := rp.Observed[name]; return ok },
	}
	tm, err := template.New("t").Funcs(funcs).Parse(text)
	if err != nil {
		rp.Outcome = "replay template error: " + err.Error()
		return
	}
	var buf bytes.Buffer
	if err := tm.Execute(&buf, rp); err != nil {
		rp.Outcome = "replay template error: " + err.Error()
		return
	}
	rp.TestSource = buf.String()
	rp.TestPkgDir = pkgdir
	execReplay(rp)
}

func execReplay(rp *ReplayFile) {
	tmp, _ := os.MkdirTemp("", "govc-replay")
	defer os.RemoveAll(tmp)
	src := filepath.Join(tmp, "zz_verif_replay_test.go")
	os.WriteFile(src, []byte(rp.TestSource), 0o644)
	repo := repoDir()
	target := filepath.Join(repo, rp.TestPkgDir, "zz_verif_replay_test.go")
	ov, _ := json.Marshal(map[string]any{"Replace": map[string]string{target: src}})
	ovf := filepath.Join(tmp, "ov.json")
	os.WriteFile(ovf, ov, 0o644)
	ctx, cancel := context.WithTimeout(context.Background(), 180*time.Second)
	defer cancel()
	args := []string{"test", "-overlay", ovf, "-vet=off", "-count=1", "-timeout", "60s", "-run", "TestVerifReplay", "./" + rp.TestPkgDir}
	if strings.Contains(rp.TestSource, "//race") {
		args = append([]string{"test", "-race"}, args[1:]...)
	}
	cmd := exec.CommandContext(ctx, "go", args...)
	cmd.Dir = repo
	cmd.Env = append(os.Environ(), "GOFLAGS=-mod=mod", "GOPROXY=off", "GOSUMDB=off", "GOTOOLCHAIN=local")
	if strings.Contains(rp.TestSource, "//race") {
		cmd.Env = append(cmd.Env, "CGO_ENABLED=1")
	}
	var out bytes.Buffer
	cmd.Stdout = &out
	cmd.Stderr = &out
	err := cmd.Run()
	log := out.String()
	if len(log) > 6000 {
		log = log[:6000] + "…"
	}
	rp.ReplayLog = log
	switch {
	case err != nil && (strings.Contains(log, "VERIF-REPLAY-FAIL") || strings.Contains(log, "panic:") || strings.Contains(log, "DATA RACE") || strings.Contains(log, "test timed out")):
		rp.Reproduced = true
		rp.Outcome = "reproduced on the real code (go test -overlay)"
	case err != nil:
		rp.Outcome = "replay did not run cleanly (build or harness error); not counted as reproduced"
	default:
		rp.Outcome = "the solver's input did not make the real code fail"
	}
}

func rerunReplay(path string) int {
	data, err := os.ReadFile(path)
	if err != nil {
		fmt.Fprintln(os.Stderr, err)
		return 2
	}
	var rp ReplayFile
	if err := json.Unmarshal(data, &rp); err != nil {
		fmt.Fprintln(os.Stderr, err)
		return 2
	}
	fmt.Printf("obligation %s/%s (%s)\n", rp.Function, rp.Obligation, rp.Verdict)
	if rp.TestSource == "" {
		fmt.Println("no executable replay: ", rp.Outcome)
		fmt.Println(rp.SolverOut)
		return 1
	}
	rp.Path = path
	execReplay(&rp)
	fmt.Println(rp.Outcome)
	fmt.Println(rp.ReplayLog)
	if rp.Reproduced {
		return 1
	}
	return 0
}
