package main

import (
	"fmt"
	"os"
	"go/token"
	"go/types"
	"sort"
	"strings"

	"golang.org/x/tools/go/ssa"
)

// analyseLoops finds natural loops (reducible CFGs only) in source order.
func analyseLoops(fn *ssa.Function) (map[*ssa.BasicBlock]*loopInfo, []*loopInfo) {
	loops := map[*ssa.BasicBlock]*loopInfo{}
	for _, b := range fn.Blocks {
		for _, s := range b.Succs {
			if s.Dominates(b) { // back edge b -> s
				li := loops[s]
				if li == nil {
					li = &loopInfo{header: s, blocks: map[*ssa.BasicBlock]bool{s: true}}
					loops[s] = li
				}
				// collect body: nodes reaching b without passing s
				stack := []*ssa.BasicBlock{b}
				for len(stack) > 0 {
					n := stack[len(stack)-1]
					stack = stack[:len(stack)-1]
					if li.blocks[n] {
						continue
					}
					li.blocks[n] = true
					stack = append(stack, n.Preds...)
				}
			}
		}
	}
	var order []*loopInfo
	for _, li := range loops {
		order = append(order, li)
	}
	// source order: by position of the first instruction with a valid position in the header, fallback block index
	pos := func(li *loopInfo) int {
		best := token.Pos(0)
		// phis carry the position of the variable's declaration, not of the loop: ignore them
		for _, in := range li.header.Instrs {
			if _, isPhi := in.(*ssa.Phi); isPhi {
				continue
			}
			if p := in.Pos(); p.IsValid() && (best == 0 || p < best) {
				best = p
			}
		}
		if best != 0 {
			return int(best)
		}
		for b := range li.blocks {
			for _, in := range b.Instrs {
				if _, isPhi := in.(*ssa.Phi); isPhi {
					continue
				}
				if _, isDbg := in.(*ssa.DebugRef); isDbg {
					continue
				}
				if p := in.Pos(); p.IsValid() && (best == 0 || p < best) {
					best = p
				}
			}
		}
		if best == 0 {
			return li.header.Index
		}
		return int(best)
	}
	sort.Slice(order, func(i, j int) bool {
		pi, pj := pos(order[i]), pos(order[j])
		if pi != pj {
			return pi < pj
		}
		if len(order[i].blocks) != len(order[j].blocks) {
			return len(order[i].blocks) > len(order[j].blocks) // outer loop first
		}
		return order[i].header.Index < order[j].header.Index
	})
	for i, li := range order {
		li.index = i
		if os.Getenv("GOVC_DEBUG") != "" {
			fmt.Fprintf(os.Stderr, "loop %d of %s: header block %d, %d blocks, pos %d\n", i, fn.Name(), li.header.Index, len(li.blocks), pos(li))
		}
	}
	return loops, order
}

func hasLoops(fn *ssa.Function) bool {
	for _, b := range fn.Blocks {
		for _, s := range b.Succs {
			if s.Dominates(b) {
				return true
			}
		}
	}
	return false
}

// topoOrder: reverse postorder ignoring back edges.
func topoOrder(fn *ssa.Function) []*ssa.BasicBlock {
	seen := map[*ssa.BasicBlock]bool{}
	var post []*ssa.BasicBlock
	var dfs func(b *ssa.BasicBlock)
	dfs = func(b *ssa.BasicBlock) {
		seen[b] = true
		for _, s := range b.Succs {
			if s.Dominates(b) {
				continue
			}
			if !seen[s] {
				dfs(s)
			}
		}
		post = append(post, b)
	}
	if len(fn.Blocks) > 0 {
		dfs(fn.Blocks[0])
	}
	for i, j := 0, len(post)-1; i < j; i, j = i+1, j-1 {
		post[i], post[j] = post[j], post[i]
	}
	return post
}

// loopWrites collects state variables possibly modified inside a loop (syntactic over-approximation).
func (a *act) loopWrites(li *loopInfo) (vars map[string]Sort, all bool) {
	vars = map[string]Sort{}
	e := a.fx.eng
	add := func(name string, s Sort) { vars[name] = s }
	for b := range li.blocks {
		for _, in := range b.Instrs {
			switch x := in.(type) {
			case *ssa.Store:
				elem := derefType(x.Addr.Type())
				switch ad := x.Addr.(type) {
				case *ssa.FieldAddr:
					stT := derefType(ad.X.Type())
					add(fieldHeap(stT, ad.Field), ArrS(SRef, e.SortOf(elem)))
				case *ssa.IndexAddr:
					add("Elem!"+typeName(elem), ArrS(SRef, ArrS(SInt, e.SortOf(elem))))
				case *ssa.Global:
					add("G!"+shortPkg(ad.Pkg.Pkg.Path())+"."+ad.Name(), e.SortOf(elem))
				default:
					if _, ok := elem.Underlying().(*types.Struct); ok && !isCid(elem) {
						all = true
					} else {
						add("Cell!"+typeName(elem), ArrS(SRef, e.SortOf(elem)))
					}
				}
			case *ssa.MapUpdate:
				mt := x.Map.Type().Underlying().(*types.Map)
				has, val, ln := a.mapHeaps(mt)
				ks, vs := e.SortOf(mt.Key()), e.SortOf(mt.Elem())
				add(has, ArrS(SRef, ArrS(ks, SBool)))
				add(val, ArrS(SRef, ArrS(ks, vs)))
				add(ln, ArrS(SRef, SInt))
			case *ssa.Alloc, *ssa.MakeMap, *ssa.MakeSlice, *ssa.MakeChan, *ssa.MakeClosure:
				add("$now", SInt)
				switch y := in.(type) {
				case *ssa.Alloc:
					a.allocWrites(derefType(y.Type()), add)
				case *ssa.MakeMap:
					mt := y.Type().Underlying().(*types.Map)
					has, _, ln := a.mapHeaps(mt)
					add(has, ArrS(SRef, ArrS(e.SortOf(mt.Key()), SBool)))
					add(ln, ArrS(SRef, SInt))
				case *ssa.MakeSlice:
					et := y.Type().Underlying().(*types.Slice).Elem()
					add("Elem!"+typeName(et), ArrS(SRef, ArrS(SInt, e.SortOf(et))))
				case *ssa.MakeChan:
					add("ChanClosed", ArrS(SRef, SBool))
					add("ChanLen", ArrS(SRef, SInt))
				}
			case *ssa.Convert:
				if e.SortOf(x.Type()) == SSlice && e.SortOf(x.X.Type()) == SStr {
					add("$now", SInt)
				}
			case *ssa.Send:
				et := x.Chan.Type().Underlying().(*types.Chan).Elem()
				add("ChanSent!"+typeName(et), ArrS(SRef, ArrS(SInt, e.SortOf(et))))
				add("ChanLen", ArrS(SRef, SInt))
			case *ssa.Next:
				if ri := a.ranges[x.Iter]; ri != nil {
					add(ri.visited, ArrS(ri.ksort, SBool))
				}
			case ssa.CallInstruction:
				if _, isGo := in.(*ssa.Go); isGo && a.fx.spec != nil && a.fx.spec.Flags["go"] == "monitor" {
					// monitor rule: the spawned body's effects on the shared state are accounted for where the lock is
					// re-acquired (monitorenter), not at the spawn
					add("$now", SInt)
					continue
				}
				cw, callAll := a.callWrites(x.Common())
				if callAll {
					all = true
				}
				for k, v := range cw {
					add(k, v)
				}
			}
		}
	}
	return
}

func (a *act) allocWrites(t types.Type, add func(string, Sort)) {
	e := a.fx.eng
	switch u := t.Underlying().(type) {
	case *types.Struct:
		if isCid(t) {
			add("Cell!"+typeName(t), ArrS(SRef, SCid))
			return
		}
		if isOpaqueStruct(t) {
			return
		}
		for i := 0; i < u.NumFields(); i++ {
			ft := u.Field(i).Type()
			if _, ok := ft.Underlying().(*types.Struct); ok && !isCid(ft) {
				a.allocWrites(ft, add)
				continue
			}
			if _, ok := ft.Underlying().(*types.Array); ok {
				continue
			}
			add(fieldHeap(t, i), ArrS(SRef, e.SortOf(ft)))
		}
	case *types.Array:
		add("Elem!"+typeName(u.Elem()), ArrS(SRef, ArrS(SInt, e.SortOf(u.Elem()))))
	default:
		add("Cell!"+typeName(t), ArrS(SRef, e.SortOf(t)))
	}
}

// runBody executes the function body of this activation from the given entry guard/state.
func (a *act) runBody(guard string, st *State) {
	fx := a.fx
	fn := a.fn
	if len(fn.Blocks) == 0 {
		unsupportedf("function %s has no body", fn)
	}
	loops, order := analyseLoops(fn)
	a.loops = loops
	if len(order) > 0 {
		for _, li := range order {
			if a.spec != nil {
				li.spec = a.spec.Loops[li.index]
			}
		}
	}
	a.exitSt = map[*ssa.BasicBlock]*State{}
	a.reach = map[*ssa.BasicBlock]string{}
	a.edge = map[[2]int]string{}
	for _, b := range topoOrder(fn) {
		var conds []string
		var sts []*State
		var preds []*ssa.BasicBlock
		if b.Index == 0 {
			conds, sts = []string{guard}, []*State{st}
		}
		for _, p := range b.Preds {
			if b.Dominates(p) {
				continue // back edge
			}
			c, ok := a.edge[[2]int{p.Index, b.Index}]
			if !ok || c == "false" {
				continue
			}
			conds = append(conds, c)
			sts = append(sts, a.exitSt[p])
			preds = append(preds, p)
		}
		if len(conds) == 0 {
			continue // unreachable
		}
		reach := fx.ctx.Fresh("reach!"+fn.Name()+fmt.Sprintf("!%d", b.Index), SBool)
		fx.ctx.Assert(Eq(reach, Or(conds...)))
		cur := fx.mergeStates(conds, sts)
		a.reach[b] = reach
		a.cur = b
		li := loops[b]
		// phis
		for _, in := range b.Instrs {
			phi, ok := in.(*ssa.Phi)
			if !ok {
				break
			}
			srt := a.sortOf(phi.Type())
			c := fx.ctx.Declare(a.name(phi), srt)
			pv := Val{T: c, S: srt, GT: phi.Type()}
			first := true
			for i, p := range b.Preds {
				if b.Dominates(p) {
					continue
				}
				ec, ok := a.edge[[2]int{p.Index, b.Index}]
				if !ok {
					continue
				}
				ev := a.val(phi.Edges[i], a.exitSt[p])
				if li == nil {
					fx.ctx.Assert(Imp(ec, Eq(c, ev.T)))
				}
				if first {
					pv.Fn, pv.Bind, pv.Loc = ev.Fn, ev.Bind, ev.Loc
					first = false
				} else if pv.Fn != ev.Fn {
					pv.Fn, pv.Bind = nil, nil
				}
			}
			if li != nil {
				pv.Fn, pv.Bind = nil, nil
			}
			if f := a.typeFacts(c, phi.Type()); f != "true" {
				fx.ctx.Assert(f)
			}
			a.vals[phi] = pv
		}
		if li != nil {
			cur = a.loopHead(li, b, preds, reach, cur)
		}
		dead := false
		for _, in := range b.Instrs {
			if _, ok := in.(*ssa.Phi); ok {
				continue
			}
			switch t := in.(type) {
			case *ssa.If:
				c := a.val(t.Cond, cur)
				a.setEdge(b, b.Succs[0], And(reach, c.T), cur)
				a.setEdge(b, b.Succs[1], And(reach, Not(c.T)), cur)
			case *ssa.Jump:
				a.setEdge(b, b.Succs[0], reach, cur)
			case *ssa.Return:
				var vs []Val
				for _, r := range t.Results {
					vs = append(vs, a.val(r, cur))
				}
				a.rets = append(a.rets, retPoint{guard: reach, vals: vs, st: cur, pos: t.Pos()})
			default:
				a.exec(in, reach, cur)
				if _, isPanic := in.(*ssa.Panic); isPanic {
					dead = true
				}
				if a.top && a.spec != nil && len(a.spec.Asserts) > 0 {
					a.hintsAfter(in, b, reach, cur)
				}
			}
			if dead {
				break
			}
		}
		a.exitSt[b] = cur
	}
}

func (a *act) setEdge(from, to *ssa.BasicBlock, cond string, st *State) {
	if to.Dominates(from) {
		// back edge: loop invariant must be re-established
		li := a.loops[to]
		a.backEdge(li, from, cond, st)
		return
	}
	a.edge[[2]int{from.Index, to.Index}] = cond
}

// ---------- calls ----------

func (a *act) call(in *ssa.Call, c *ssa.CallCommon, guard string, st *State) Val {
	var args []Val
	for _, x := range c.Args {
		args = append(args, a.val(x, st))
	}
	return a.callWith(c, a.val(c.Value, st), args, guard, st, in.Pos(), in)
}

func (a *act) callWith(c *ssa.CallCommon, fnv Val, args []Val, guard string, st *State, pos token.Pos, in *ssa.Call) Val {
	sig := c.Signature()
	if b, ok := c.Value.(*ssa.Builtin); ok {
		return a.builtin(b, c, args, guard, st, pos, in)
	}
	if c.IsInvoke() {
		return a.invoke(c, fnv, args, guard, st, pos)
	}
	if fnv.Fn != nil {
		full := append(append([]Val{}, fnv.Bind...), args...)
		return a.callStatic(fnv.Fn, fnv.Bind, args, full, guard, st, pos, sig)
	}
	// dynamic call through a function value
	return a.callDynamic(c, fnv, args, guard, st, pos, sig)
}

func resultTypes(sig *types.Signature) []types.Type {
	var out []types.Type
	for i := 0; i < sig.Results().Len(); i++ {
		out = append(out, sig.Results().At(i).Type())
	}
	return out
}

func (a *act) freshResults(sig *types.Signature, hint string, guard string) Val {
	fx := a.fx
	rts := resultTypes(sig)
	mk := func(t types.Type) Val {
		s := a.sortOf(t)
		c := fx.ctx.Fresh("ret!"+hint, s)
		if f := a.typeFacts(c, t); f != "true" {
			fx.ctx.Assert(f)
		}
		return Val{T: c, S: s, GT: t}
	}
	switch len(rts) {
	case 0:
		return Val{S: "Tuple"}
	case 1:
		return mk(rts[0])
	}
	var vs []Val
	for _, t := range rts {
		vs = append(vs, mk(t))
	}
	return Val{S: "Tuple", Tuple: vs}
}

func (a *act) invoke(c *ssa.CallCommon, recv Val, args []Val, guard string, st *State, pos token.Pos) Val {
	fx := a.fx
	e := fx.eng
	what := e.srcText(pos, nil)
	if what == "?" {
		what = c.Value.Name() + "." + c.Method.Name()
	}
	fx.addObl("nil", a.prefix()+"invoke "+what, guard, Not(Eq(App("itag", recv.T), "0")), pos, "method call on nil interface")
	mkey := "iface:" + MethodKey(c.Method)
	if sp, ok := e.specs.Funcs[mkey]; ok {
		full := append([]Val{recv}, args...)
		return a.applyContract(sp, nil, c.Method, full, guard, st, pos, c.Signature())
	}
	it := c.Value.Type()
	if e.isClosedIface(it) {
		impls := e.implementers(it)
		if len(impls) == 0 {
			unsupportedf("closed interface %s has no implementers", it)
		}
		e.assume("closed world: dynamic type of a non-nil " + typeName(it) + " is one of the module's implementers")
		var alts []string
		for _, ct := range impls {
			alts = append(alts, Eq(App("itag", recv.T), fx.ctx.Tag(typeName(ct))))
		}
		fx.ctx.Assert(Imp(guard, Or(alts...)))
		type res struct {
			cond string
			st   *State
			v    Val
		}
		var rs []res
		for _, ct := range impls {
			m := e.prog.Prog.LookupMethod(ct, c.Method.Pkg(), c.Method.Name())
			if m == nil {
				unsupportedf("no method %s on %s", c.Method.Name(), ct)
			}
			cond := guard
			cst := st
			if len(impls) > 1 {
				cond = And(guard, Eq(App("itag", recv.T), fx.ctx.Tag(typeName(ct))))
				cst = st.clone()
			}
			var rv Val
			if isPointerLike(ct) {
				rv = Val{T: App("iref", recv.T), S: SRef, GT: ct, Fn: recv.Fn}
			} else {
				_, u := fx.boxFn(a.sortOf(ct))
				rv = Val{T: App(u, App("iref", recv.T)), S: a.sortOf(ct), GT: ct}
			}
			full := append([]Val{rv}, args...)
			v := a.callStatic(m, nil, full, full, cond, cst, pos, c.Signature())
			rs = append(rs, res{cond, cst, v})
		}
		if len(rs) == 1 {
			return rs[0].v
		}
		var conds []string
		var sts []*State
		for _, r := range rs {
			conds = append(conds, r.cond)
			sts = append(sts, r.st)
		}
		m := fx.mergeStates(conds, sts)
		st.vars = m.vars
		out := a.freshResults(c.Signature(), c.Method.Name(), guard)
		for _, r := range rs {
			a.assumeEqVals(r.cond, out, r.v)
		}
		return out
	}
	fx.unknownCall("invoke "+MethodKey(c.Method), st)
	return a.freshResults(c.Signature(), c.Method.Name(), guard)
}

func (a *act) assumeEqVals(cond string, x, y Val) {
	if x.S == "Tuple" {
		for i := range x.Tuple {
			a.assumeEqVals(cond, x.Tuple[i], y.Tuple[i])
		}
		return
	}
	a.fx.ctx.Assert(Imp(cond, Eq(x.T, y.T)))
}

// unknownCall: no contract and no body to inline. Recorded; the function is then not counted as verified.
func (fx *FX) unknownCall(what string, st *State) {
	fx.notes = append(fx.notes, "unknown call: "+what)
	fx.unknown = append(fx.unknown, what)
	fx.unknownSeen = true
	// havoc every state variable touched so far
	for _, name := range sortedKeys(fx.svSort) {
		if name == "$now" {
			continue
		}
		fx.havocSV(st, name, fx.svSort[name])
	}
}

func (a *act) callStatic(fn *ssa.Function, binds, args, full []Val, guard string, st *State, pos token.Pos, sig *types.Signature) Val {
	fx := a.fx
	e := fx.eng
	key := FuncKey(fn)
	if !fx.lockMode && fn.Pkg != nil && (fn.Pkg.Pkg.Path() == "sync" || fn.Pkg.Pkg.Path() == "golang.org/x/sync/semaphore") {
		sp0 := e.specs.Funcs[key]
		switch fn.Name() {
		case "Release":
			if sp0 != nil && len(sp0.Modifies) > 0 {
				// the semaphore's contract counts released slots (ghost): apply it
				break
			}
			fallthrough
		case "Lock", "Unlock", "RLock", "RUnlock", "Add", "Done", "Wait", "Signal", "Broadcast":
			e.assume("functional contracts are sequential: lock/WaitGroup operations are no-ops here; atomicity of each method is the obligation of C13")
			return a.freshResults(fn.Signature, fn.Name(), guard)
		}
	}
	if fx.lockMode && a.top && fn.Pkg != nil && fn.Pkg.Pkg.Path() == "sync" && (fn.Name() == "Lock" || fn.Name() == "RLock") && len(full) > 0 {
		// atomicity: one activation enters the critical section of a given lock at most once
		acq := fx.sv(st, "$acq", ArrS(SRef, SInt))
		what := e.srcText(pos, nil)
		fx.addObl("atomic", a.prefix()+"single critical section: "+what, guard, Eq(Sel(acq, full[0].T), "0"), pos, "the lock is acquired a second time in the same call: the method is not one atomic step")
		fx.setSV(st, "$acq", ArrS(SRef, SInt), Store(acq, full[0].T, "1"))
	}
	if sp, ok := e.specs.Funcs[key]; ok && !sp.Inline && !(sp.Lemma) {
		return a.applyContract(sp, fn, nil, full, guard, st, pos, sig)
	}
	// inline
	inModule := fn.Pkg != nil && isModulePkg(fn.Pkg.Pkg.Path()) || fn.Parent() != nil && fn.Parent().Pkg != nil && isModulePkg(fn.Parent().Pkg.Pkg.Path())
	if fn.Synthetic != "" && strings.Contains(fn.Synthetic, "bound method") {
		inModule = true
	}
	if fn.Synthetic != "" && strings.Contains(fn.Synthetic, "wrapper") {
		inModule = true
	}
	if len(fn.Blocks) == 0 || !inModule {
		fx.unknownCall(key, st)
		return a.freshResults(fn.Signature, fn.Name(), guard)
	}
	if hasLoops(fn) {
		fx.unknownCall(key+" (has loops, no contract)", st)
		return a.freshResults(fn.Signature, fn.Name(), guard)
	}
	for _, s := range fx.stack {
		if s == fn {
			fx.unknownCall(key+" (recursive)", st)
			return a.freshResults(fn.Signature, fn.Name(), guard)
		}
	}
	if a.depth >= 8 {
		fx.unknownCall(key+" (inline depth)", st)
		return a.freshResults(fn.Signature, fn.Name(), guard)
	}
	fx.inlined[key] = true
	fx.actN++
	sub := &act{fx: fx, fn: fn, id: fx.actN, depth: a.depth + 1, vals: map[ssa.Value]Val{}}
	for i, fv := range fn.FreeVars {
		sub.vals[fv] = binds[i]
	}
	for i, p := range fn.Params {
		sub.vals[p] = args[i]
	}
	fx.stack = append(fx.stack, fn)
	sub.runBody(guard, st)
	fx.stack = fx.stack[:len(fx.stack)-1]
	// merge returns
	if len(sub.rets) == 0 {
		// never returns normally
		fx.ctx.Assert(Not(guard))
		return a.freshResults(fn.Signature, fn.Name(), guard)
	}
	var conds []string
	var sts []*State
	for _, r := range sub.rets {
		conds = append(conds, r.guard)
		sts = append(sts, r.st)
	}
	m := fx.mergeStates(conds, sts)
	st.vars = m.vars
	if len(sub.rets) == 1 {
		r := sub.rets[0]
		switch len(r.vals) {
		case 0:
			return Val{S: "Tuple"}
		case 1:
			return r.vals[0]
		}
		return Val{S: "Tuple", Tuple: r.vals}
	}
	out := a.freshResults(fn.Signature, fn.Name(), guard)
	for _, r := range sub.rets {
		switch len(r.vals) {
		case 0:
		case 1:
			fx.ctx.Assert(Imp(r.guard, Eq(out.T, r.vals[0].T)))
		default:
			for i := range r.vals {
				fx.ctx.Assert(Imp(r.guard, Eq(out.Tuple[i].T, r.vals[i].T)))
			}
		}
	}
	// keep static function info when all returns agree
	return out
}

func (a *act) callDynamic(c *ssa.CallCommon, fnv Val, args []Val, guard string, st *State, pos token.Pos, sig *types.Signature) Val {
	fx := a.fx
	// a call through a parameter / field of function type: use callspec when given, else uninterpreted pure application
	name := ""
	switch v := c.Value.(type) {
	case *ssa.Parameter:
		name = v.Name()
	case *ssa.UnOp:
		if fa, ok := v.X.(*ssa.FieldAddr); ok {
			name = derefType(fa.X.Type()).Underlying().(*types.Struct).Field(fa.Field).Name()
		}
	case *ssa.FreeVar:
		name = v.Name()
	}
	var cs *CallSpec
	if fx.spec != nil {
		cs = fx.spec.CallSpecs[name]
	}
	what := fx.eng.srcText(pos, nil)
	fx.addObl("nil", a.prefix()+"call "+what, guard, Not(Eq(fnv.T, "fn!nil")), pos, "call of nil function")
	if cs == nil {
		// uninterpreted deterministic application: result depends on function value and arguments only; no heap effects assumed
		fx.eng.assume("function-typed values without callspec (" + name + ") are treated as pure, deterministic applications")
		return a.applyUninterp(fnv, args, sig, name)
	}
	out := a.freshResults(sig, "dyn!"+name, guard)
	env := a.callEnv(nil, sig, args, out)
	for _, r := range cs.Requires {
		t := fx.specTerm(r.X, env, st, st, fx.spec.Pkg)
		fx.addObl("pre@"+name, a.prefix()+r.Text, guard, t, pos, "precondition of function value")
	}
	if !cs.Pure {
		// may allocate; assumed not to modify existing objects
		nb := fx.now(st)
		n := fx.havocSV(st, "$now", SInt)
		fx.ctx.Assert(fmt.Sprintf("(>= %s %s)", n, nb))
		env.nowOld = nb
		fx.eng.assume("function-typed parameters with a callspec may allocate but do not modify existing objects")
	}
	for _, en := range cs.Ensures {
		t := fx.specTerm(en.X, env, st, st, fx.spec.Pkg)
		fx.ctx.Assert(Imp(guard, t))
	}
	a.allocatedFacts(out, st, guard)
	fx.eng.assume("callspec assumed for function-typed parameter " + fx.key + ":" + name)
	return out
}

func (a *act) applyUninterp(fnv Val, args []Val, sig *types.Signature, name string) Val {
	fx := a.fx
	rts := resultTypes(sig)
	var asorts []Sort
	asorts = append(asorts, SFn)
	var ats []string
	ats = append(ats, fnv.T)
	for _, x := range args {
		asorts = append(asorts, x.S)
		ats = append(ats, x.T)
	}
	mk := func(i int, t types.Type) Val {
		s := a.sortOf(t)
		var sn []string
		for _, as := range asorts {
			sn = append(sn, strings.NewReplacer("(", "_", ")", "_", " ", "_").Replace(string(as)))
		}
		f := fx.ctx.DeclareFun(fmt.Sprintf("apply!%s!%d!%s", strings.Join(sn, "."), i, strings.NewReplacer("(", "_", ")", "_", " ", "_").Replace(string(s))), asorts, s)
		tm := App(f, ats...)
		if fct := a.typeFacts(tm, t); fct != "true" {
			fx.ctx.Assert(fct)
		}
		return Val{T: tm, S: s, GT: t}
	}
	switch len(rts) {
	case 0:
		return Val{S: "Tuple"}
	case 1:
		return mk(0, rts[0])
	}
	var vs []Val
	for i, t := range rts {
		vs = append(vs, mk(i, t))
	}
	return Val{S: "Tuple", Tuple: vs}
}

// callWrites: which state variables a call may modify (for loop havoc).
func (a *act) callWrites(c *ssa.CallCommon) (map[string]Sort, bool) {
	out := map[string]Sort{}
	e := a.fx.eng
	if _, ok := c.Value.(*ssa.Builtin); ok {
		b := c.Value.(*ssa.Builtin)
		switch b.Name() {
		case "append":
			out["$now"] = SInt
			et := c.Args[0].Type().Underlying().(*types.Slice).Elem()
			out["Elem!"+typeName(et)] = ArrS(SRef, ArrS(SInt, e.SortOf(et)))
		case "copy":
			et := c.Args[0].Type().Underlying().(*types.Slice).Elem()
			out["Elem!"+typeName(et)] = ArrS(SRef, ArrS(SInt, e.SortOf(et)))
		case "close":
			out["ChanClosed"] = ArrS(SRef, SBool)
		case "delete":
			mt := c.Args[0].Type().Underlying().(*types.Map)
			has, _, ln := a.mapHeaps(mt)
			out[has] = ArrS(SRef, ArrS(e.SortOf(mt.Key()), SBool))
			out[ln] = ArrS(SRef, SInt)
		}
		return out, false
	}
	var targets []*ssa.Function
	var specs []*FuncSpec
	if c.IsInvoke() {
		if sp, ok := e.specs.Funcs["iface:"+MethodKey(c.Method)]; ok {
			specs = append(specs, sp)
		} else if e.isClosedIface(c.Value.Type()) {
			for _, ct := range e.implementers(c.Value.Type()) {
				if m := e.prog.Prog.LookupMethod(ct, c.Method.Pkg(), c.Method.Name()); m != nil {
					targets = append(targets, m)
				}
			}
		} else {
			return out, true
		}
	} else if fn := c.StaticCallee(); fn != nil {
		targets = append(targets, fn)
	} else {
		// dynamic: pure application unless callspec says otherwise
		return out, false
	}
	if a.fx.cwSeen == nil {
		a.fx.cwSeen = map[*ssa.Function]bool{}
		defer func() { a.fx.cwSeen = nil }()
	}
	seen := a.fx.cwSeen
	var visit func(fn *ssa.Function, depth int) bool
	visit = func(fn *ssa.Function, depth int) bool {
		if seen[fn] {
			return false
		}
		seen[fn] = true
		if sp, ok := e.specs.Funcs[FuncKey(fn)]; ok && !sp.Inline {
			specs = append(specs, sp)
			return false
		}
		inModule := fn.Pkg != nil && isModulePkg(fn.Pkg.Pkg.Path()) || fn.Parent() != nil || fn.Synthetic != ""
		if len(fn.Blocks) == 0 || !inModule || len(seen) > 200 {
			return true
		}
		sub := &act{fx: a.fx, fn: fn, vals: map[ssa.Value]Val{}, ranges: map[ssa.Value]*rangeInfo{}}
		li := &loopInfo{blocks: map[*ssa.BasicBlock]bool{}}
		for _, b := range fn.Blocks {
			li.blocks[b] = true
		}
		w, all := sub.loopWrites(li)
		for k, v := range w {
			out[k] = v
		}
		return all
	}
	all := false
	for _, t := range targets {
		if visit(t, 0) {
			all = true
		}
	}
	for _, sp := range specs {
		if sp.Pure {
			continue
		}
		out["$now"] = SInt
		for _, m := range sp.Modifies {
			names, ok := a.fx.modifiesVars(m.X, sp)
			if !ok {
				all = true
			}
			for k, v := range names {
				out[k] = v
			}
		}
		if v, ok := sp.Flags["allocates"]; ok {
			_ = v
		}
	}
	return out, all
}

// hintsAfter checks and assumes the contract's assert hints anchored at this instruction.
func (a *act) hintsAfter(in ssa.Instruction, b *ssa.BasicBlock, reach string, st *State) {
	fx := a.fx
	if a.hintAnchors == nil {
		a.hintAnchors = map[ssa.Instruction][]*AssertHint{}
		for _, h := range a.spec.Asserts {
			var best ssa.Instruction
			bestIdx := -1
			for _, blk := range a.fn.Blocks {
				for insIdx, ins := range blk.Instrs {
					if _, isDbg := ins.(*ssa.DebugRef); isDbg {
						continue
					}
					if _, isPhi := ins.(*ssa.Phi); isPhi {
						continue
					}
					switch ins.(type) {
					case *ssa.If, *ssa.Jump, *ssa.Return:
						continue
					}
					p := ins.Pos()
					if !p.IsValid() {
						continue
					}
					if strings.Contains(fx.eng.sourceLine(p), h.Snippet) {
						// the instruction of the statement that executes last (a call's arguments are evaluated before it)
						later := best == nil
						if best != nil {
							bb := best.Block()
							later = (bb == blk && insIdx > bestIdx) || (bb != blk && bb.Dominates(blk)) || (bb != blk && !blk.Dominates(bb) && ins.Pos() >= best.Pos())
						}
						if later {
							best, bestIdx = ins, insIdx
						}
					}
				}
			}
			if best == nil {
				fx.degraded = append(fx.degraded, fmt.Sprintf("assert hint anchor %q not found", h.Snippet))
				continue
			}
			a.hintAnchors[best] = append(a.hintAnchors[best], h)
		}
	}
	for _, h := range a.hintAnchors[in] {
		qn := 0
		env := &SEnv{vars: map[string]Val{}, act: a, header: b, pkg: a.spec.Pkg, nowOld: fx.nowEntry, qn: &qn, atInstr: in}
		for _, p := range a.fn.Params {
			env.vars[p.Name()] = a.vals[p]
		}
		for _, fv := range a.fn.FreeVars {
			v := a.vals[fv]
			v.GT = fv.Type()
			env.vars[fv.Name()] = v
		}
		if h.Use != nil {
			func() {
				defer func() {
					if r := recover(); r != nil {
						if se, ok := r.(specError); ok {
							fx.degraded = append(fx.degraded, fmt.Sprintf("uselemma %s does not resolve: %s", h.Use.Key, se.msg))
							return
						}
						panic(r)
					}
				}()
				fx.ctx.Assert(Imp(reach, fx.lemmaInstance(a, h.Use, env, st)))
			}()
			continue
		}
		if h.Enter != nil {
			func() {
				defer func() {
					if r := recover(); r != nil {
						if se, ok := r.(specError); ok {
							fx.degraded = append(fx.degraded, fmt.Sprintf("monitorenter clause does not resolve: %s", se.msg))
							return
						}
						panic(r)
					}
				}()
				pre := st.clone()
				fx.havocItems(fx.modItems(h.Enter, env, pre), pre, st, reach)
				fx.ctx.Assert(Imp(reach, fx.specTerm(h.C.X, env, st, fx.entry, env.pkg)))
				fx.eng.assume("monitor rule: the invariant is assumed when the lock is (re)acquired in " + a.spec.Key + " and must be proved at every release (assert hints at Unlock / Wait)")
			}()
			continue
		}
		t := a.safeSpec(h.C, env, st)
		name := h.C.Name
		if name == "" {
			name = normSpace(h.C.Text)
		}
		fx.addObl("assert", name, reach, t, in.Pos(), "proof hint")
	}
}

func (e *Engine) sourceLine(p token.Pos) string {
	pos := e.prog.Fset.Position(p)
	if e.srcLines == nil {
		e.srcLines = map[string][]string{}
	}
	ls, ok := e.srcLines[pos.Filename]
	if !ok {
		data, err := os.ReadFile(pos.Filename)
		if err == nil {
			ls = strings.Split(string(data), "\n")
		}
		e.srcLines[pos.Filename] = ls
	}
	if pos.Line-1 < len(ls) && pos.Line >= 1 {
		return ls[pos.Line-1]
	}
	return ""
}
