package main

import (
	"fmt"
	"strconv"
	"strings"
	"unicode"
)

// ---------- spec expression AST ----------

type SX struct {
	K    string // id int str bin un call sel idx slice quant nil bool
	Name string // id name, operator, field, quantifier kind, called function name
	Int  int64
	Str  string
	A    []*SX      // operands / args
	Vars []SVarDecl // quantifier variables
	Trig [][]*SX    // quantifier triggers  forall x T :: {f(x), g(x)} body
	Pos  string
}

type SVarDecl struct {
	Name string
	Type string
}

func (e *SX) String() string {
	switch e.K {
	case "id":
		return e.Name
	case "int":
		return fmt.Sprint(e.Int)
	case "str":
		return strconv.Quote(e.Str)
	case "nil":
		return "nil"
	case "bool":
		return e.Name
	case "bin":
		return "(" + e.A[0].String() + " " + e.Name + " " + e.A[1].String() + ")"
	case "un":
		return e.Name + e.A[0].String()
	case "call":
		var as []string
		for _, a := range e.A[1:] {
			as = append(as, a.String())
		}
		return e.A[0].String() + "(" + strings.Join(as, ", ") + ")"
	case "sel":
		return e.A[0].String() + "." + e.Name
	case "idx":
		return e.A[0].String() + "[" + e.A[1].String() + "]"
	case "slice":
		lo, hi := "", ""
		if e.A[1] != nil {
			lo = e.A[1].String()
		}
		if e.A[2] != nil {
			hi = e.A[2].String()
		}
		return e.A[0].String() + "[" + lo + ":" + hi + "]"
	case "quant":
		var vs []string
		for _, v := range e.Vars {
			vs = append(vs, v.Name+" "+v.Type)
		}
		return e.Name + " " + strings.Join(vs, ", ") + " :: " + e.A[0].String()
	}
	return "?"
}

// ---------- lexer ----------

type tok struct {
	k string // id int str op eof
	s string
}

func lexSpec(src string) ([]tok, error) {
	var out []tok
	i := 0
	for i < len(src) {
		c := rune(src[i])
		switch {
		case unicode.IsSpace(c):
			i++
		case unicode.IsLetter(c) || c == '_' || c == '$':
			j := i + 1
			for j < len(src) && (unicode.IsLetter(rune(src[j])) || unicode.IsDigit(rune(src[j])) || src[j] == '_' || src[j] == '$' || src[j] == '!') {
				j++
			}
			out = append(out, tok{"id", src[i:j]})
			i = j
		case unicode.IsDigit(c):
			j := i + 1
			for j < len(src) && unicode.IsDigit(rune(src[j])) {
				j++
			}
			out = append(out, tok{"int", src[i:j]})
			i = j
		case c == '"':
			j := i + 1
			for j < len(src) && src[j] != '"' {
				if src[j] == '\\' {
					j++
				}
				j++
			}
			if j >= len(src) {
				return nil, fmt.Errorf("unterminated string")
			}
			s, err := strconv.Unquote(src[i : j+1])
			if err != nil {
				return nil, err
			}
			out = append(out, tok{"str", s})
			i = j + 1
		default:
			ops := []string{"<==>", "==>", "::", "==", "!=", "<=", ">=", "&&", "||", "(", ")", "[", "]", ".", ",", ":", "+", "-", "*", "/", "%", "<", ">", "!", "{", "}"}
			found := false
			for _, op := range ops {
				if strings.HasPrefix(src[i:], op) {
					out = append(out, tok{"op", op})
					i += len(op)
					found = true
					break
				}
			}
			if !found {
				return nil, fmt.Errorf("unexpected character %q in %q", c, src)
			}
		}
	}
	out = append(out, tok{"eof", ""})
	return out, nil
}

type sparser struct {
	toks []tok
	p    int
	src  string
}

func (p *sparser) peek() tok { return p.toks[p.p] }
func (p *sparser) next() tok  { t := p.toks[p.p]; p.p++; return t }
func (p *sparser) isOp(s string) bool {
	t := p.peek()
	return t.k == "op" && t.s == s
}
func (p *sparser) accept(s string) bool {
	if p.isOp(s) {
		p.p++
		return true
	}
	return false
}
func (p *sparser) expect(s string) error {
	if !p.accept(s) {
		return fmt.Errorf("expected %q at token %d (%q) in %q", s, p.p, p.peek().s, p.src)
	}
	return nil
}

func ParseSpecExpr(src string) (*SX, error) {
	toks, err := lexSpec(src)
	if err != nil {
		return nil, err
	}
	p := &sparser{toks: toks, src: src}
	e, err := p.expr()
	if err != nil {
		return nil, err
	}
	if p.peek().k != "eof" {
		return nil, fmt.Errorf("trailing tokens at %q in %q", p.peek().s, src)
	}
	return e, nil
}

func (p *sparser) expr() (*SX, error) {
	t := p.peek()
	if t.k == "id" && (t.s == "forall" || t.s == "exists") {
		p.next()
		q := &SX{K: "quant", Name: t.s}
		for {
			n := p.next()
			if n.k != "id" {
				return nil, fmt.Errorf("quantifier variable expected in %q", p.src)
			}
			ty, err := p.typeText()
			if err != nil {
				return nil, err
			}
			q.Vars = append(q.Vars, SVarDecl{n.s, ty})
			if !p.accept(",") {
				break
			}
		}
		if err := p.expect("::"); err != nil {
			return nil, err
		}
		for p.isOp("{") {
			p.next()
			var grp []*SX
			for {
				t, err := p.expr()
				if err != nil {
					return nil, err
				}
				grp = append(grp, t)
				if !p.accept(",") {
					break
				}
			}
			if err := p.expect("}"); err != nil {
				return nil, err
			}
			q.Trig = append(q.Trig, grp)
		}
		body, err := p.expr()
		if err != nil {
			return nil, err
		}
		q.A = []*SX{body}
		return q, nil
	}
	return p.iff()
}

// typeText reads a type up to ',' or '::' or ')' at depth 0.
func (p *sparser) typeText() (string, error) {
	var b strings.Builder
	depth := 0
	for {
		t := p.peek()
		if t.k == "eof" {
			break
		}
		if t.k == "op" && depth == 0 && (t.s == "," || t.s == "::" || t.s == ")" || t.s == "==") {
			break
		}
		if t.k == "op" && (t.s == "[" || t.s == "(") {
			depth++
		}
		if t.k == "op" && (t.s == "]" || t.s == ")") {
			depth--
		}
		b.WriteString(t.s)
		p.next()
	}
	if b.Len() == 0 {
		return "", fmt.Errorf("type expected in %q", p.src)
	}
	return b.String(), nil
}

func (p *sparser) iff() (*SX, error) {
	l, err := p.impl()
	if err != nil {
		return nil, err
	}
	for p.accept("<==>") {
		r, err := p.impl()
		if err != nil {
			return nil, err
		}
		l = &SX{K: "bin", Name: "<==>", A: []*SX{l, r}}
	}
	return l, nil
}

func (p *sparser) impl() (*SX, error) {
	l, err := p.or()
	if err != nil {
		return nil, err
	}
	if p.accept("==>") {
		// right assoc; allow quantifier on the right
		var r *SX
		if t := p.peek(); t.k == "id" && (t.s == "forall" || t.s == "exists") {
			r, err = p.expr()
		} else {
			r, err = p.impl()
		}
		if err != nil {
			return nil, err
		}
		return &SX{K: "bin", Name: "==>", A: []*SX{l, r}}, nil
	}
	return l, nil
}

func (p *sparser) or() (*SX, error) {
	l, err := p.and()
	if err != nil {
		return nil, err
	}
	for p.accept("||") {
		r, err := p.and()
		if err != nil {
			return nil, err
		}
		l = &SX{K: "bin", Name: "||", A: []*SX{l, r}}
	}
	return l, nil
}

func (p *sparser) and() (*SX, error) {
	l, err := p.cmp()
	if err != nil {
		return nil, err
	}
	for p.accept("&&") {
		r, err := p.cmp()
		if err != nil {
			return nil, err
		}
		l = &SX{K: "bin", Name: "&&", A: []*SX{l, r}}
	}
	return l, nil
}

func (p *sparser) cmp() (*SX, error) {
	l, err := p.add()
	if err != nil {
		return nil, err
	}
	for _, op := range []string{"==", "!=", "<=", ">=", "<", ">"} {
		if p.accept(op) {
			r, err := p.add()
			if err != nil {
				return nil, err
			}
			return &SX{K: "bin", Name: op, A: []*SX{l, r}}, nil
		}
	}
	return l, nil
}

func (p *sparser) add() (*SX, error) {
	l, err := p.mul()
	if err != nil {
		return nil, err
	}
	for {
		if p.accept("+") {
			r, err := p.mul()
			if err != nil {
				return nil, err
			}
			l = &SX{K: "bin", Name: "+", A: []*SX{l, r}}
		} else if p.accept("-") {
			r, err := p.mul()
			if err != nil {
				return nil, err
			}
			l = &SX{K: "bin", Name: "-", A: []*SX{l, r}}
		} else {
			return l, nil
		}
	}
}

func (p *sparser) mul() (*SX, error) {
	l, err := p.unary()
	if err != nil {
		return nil, err
	}
	for {
		op := ""
		for _, o := range []string{"*", "/", "%"} {
			if p.accept(o) {
				op = o
				break
			}
		}
		if op == "" {
			return l, nil
		}
		r, err := p.unary()
		if err != nil {
			return nil, err
		}
		l = &SX{K: "bin", Name: op, A: []*SX{l, r}}
	}
}

func (p *sparser) unary() (*SX, error) {
	if p.accept("!") {
		e, err := p.unary()
		if err != nil {
			return nil, err
		}
		return &SX{K: "un", Name: "!", A: []*SX{e}}, nil
	}
	if p.accept("-") {
		e, err := p.unary()
		if err != nil {
			return nil, err
		}
		return &SX{K: "un", Name: "-", A: []*SX{e}}, nil
	}
	return p.postfix()
}

func (p *sparser) postfix() (*SX, error) {
	e, err := p.primary()
	if err != nil {
		return nil, err
	}
	for {
		switch {
		case p.accept("."):
			t := p.next()
			if t.k == "op" && t.s == "(" {
				// type assertion-like cast x.(T): treated as cast
				ty, err := p.typeText()
				if err != nil {
					return nil, err
				}
				if err := p.expect(")"); err != nil {
					return nil, err
				}
				e = &SX{K: "cast", Name: ty, A: []*SX{e}}
				continue
			}
			if t.k != "id" {
				return nil, fmt.Errorf("field name expected in %q", p.src)
			}
			e = &SX{K: "sel", Name: t.s, A: []*SX{e}}
		case p.accept("["):
			var lo, hi *SX
			if !p.isOp(":") {
				lo, err = p.expr()
				if err != nil {
					return nil, err
				}
			}
			if p.accept(":") {
				if !p.isOp("]") {
					hi, err = p.expr()
					if err != nil {
						return nil, err
					}
				}
				if err := p.expect("]"); err != nil {
					return nil, err
				}
				e = &SX{K: "slice", A: []*SX{e, lo, hi}}
			} else {
				if err := p.expect("]"); err != nil {
					return nil, err
				}
				e = &SX{K: "idx", A: []*SX{e, lo}}
			}
		case p.accept("("):
			args := []*SX{e}
			if !p.isOp(")") {
				for {
					a, err := p.expr()
					if err != nil {
						return nil, err
					}
					args = append(args, a)
					if !p.accept(",") {
						break
					}
				}
			}
			if err := p.expect(")"); err != nil {
				return nil, err
			}
			e = &SX{K: "call", A: args}
		default:
			return e, nil
		}
	}
}

func (p *sparser) primary() (*SX, error) {
	t := p.next()
	switch t.k {
	case "int":
		n, err := strconv.ParseInt(t.s, 10, 64)
		if err != nil {
			return nil, err
		}
		return &SX{K: "int", Int: n}, nil
	case "str":
		return &SX{K: "str", Str: t.s}, nil
	case "id":
		switch t.s {
		case "nil":
			return &SX{K: "nil"}, nil
		case "true", "false":
			return &SX{K: "bool", Name: t.s}, nil
		}
		return &SX{K: "id", Name: t.s}, nil
	case "op":
		if t.s == "(" {
			e, err := p.expr()
			if err != nil {
				return nil, err
			}
			if err := p.expect(")"); err != nil {
				return nil, err
			}
			return e, nil
		}
	}
	return nil, fmt.Errorf("unexpected token %q in %q", t.s, p.src)
}

// ---------- contract files ----------

type Clause struct {
	Kind string // requires ensures modifies invariant decreases assert ...
	Text string
	X    *SX
	Name string // optional label  (requires [name] expr)
	Src  SpecLine
}

type LoopSpec struct {
	Index      int
	FreshOnly  bool
	Keeps      []*Clause // locations the loop leaves unchanged (assumed at the head, re-proved at every back edge)
	Invariants []*Clause
	LockInvariants []*Clause
	Modifies   []*Clause
	Decreases  *Clause
}

type AssertHint struct {
	Snippet string
	C       *Clause
	Use     *UseLemma // instead of a checked assertion: a proved lemma instantiated after the anchored statement
	// monitor rule: after the anchored statement (a lock acquisition or a Cond.Wait that re-acquires) the listed shared
	// locations hold arbitrary values that satisfy the monitor invariant C (which every release must re-establish)
	Enter []*Clause
}

type CallSpec struct {
	Param    string
	Requires []*Clause
	Ensures  []*Clause
	Pure     bool
}

type FuncSpec struct {
	Key       string
	Requires  []*Clause
	Ensures   []*Clause
	Modifies  []*Clause
	LockRequires []*Clause
	LockEnsures  []*Clause
	Acquires     []*Clause // locks whose critical section the function enters (once): callers must not do so twice for one snapshot
	Assumes      []*Clause // postconditions assumed at call sites and not proved from the body (global assumptions such as A-fresh)
	Witnesses []FunDecl
	Asserts   []*AssertHint
	Pure      bool
	Trusted   bool // contract assumed, body not verified (external functions)
	Lemma     bool
	Induction *InductionSpec // lemma proved by well-founded induction on an integer measure of one parameter
	UseLemmas []*UseLemma    // proved lemma functions instantiated (for all values of the "_" arguments) at every return
	NoInline  bool
	Inline    bool
	Loops     map[int]*LoopSpec
	CallSpecs map[string]*CallSpec
	Observe   []*Clause
	Replay    string
	Props     []string
	Src       SpecLine
	Pkg       string // package path whose scope resolves type names
	Flags     map[string]string
}

type InductionSpec struct {
	Var     string
	Measure *SX
	Src     SpecLine
}

type UseLemma struct {
	Key  string
	Args []*SX // nil: universally quantified argument
	Src  SpecLine
}

type Define struct {
	Name   string
	Params []SVarDecl
	Body   *SX
	Pkg    string
}

type FunDecl struct {
	Name string
	Args []string
	Ret  string
}

type GhostVar struct {
	Name string
	Sort string
}

type SpecSet struct {
	Funcs   map[string]*FuncSpec
	Defines map[string]*Define
	Funs    []FunDecl
	Sorts   []string
	SeqSorts []SeqSort // seqsort NAME ELEMSORT : abstract finite sequences of slice contents
	Ghosts  []GhostVar
	Axioms  []*Clause
	AxiomPkg map[*Clause]string
	Guarded []GuardDecl
	Order   []string
}

type SeqSort struct{ Name, Elem string }

type GuardDecl struct {
	Field string // T.f
	Lock  string // T.lock
	Pkg   string
}

func NewSpecSet() *SpecSet {
	return &SpecSet{Funcs: map[string]*FuncSpec{}, Defines: map[string]*Define{}, AxiomPkg: map[*Clause]string{}}
}

var clauseKeywords = map[string]bool{"requires": true, "ensures": true, "modifies": true, "pure": true, "trusted": true, "lemma": true,
	"loop": true, "invariant": true, "decreases": true, "callspec": true, "observe": true, "replay": true, "prop": true, "func": true,
	"sort": true, "seqsort": true, "fun": true, "ghost": true, "axiom": true, "define": true, "inline": true, "noinline": true, "guarded": true, "flag": true, "loopmodifies": true, "lockrequires": true, "lockensures": true, "lockinvariant": true, "witness": true, "loopfresh": true, "assumes": true, "loopkeeps": true, "assert": true, "acquires": true, "induction": true, "uselemma": true, "monitorenter": true}

// ActiveFacets: facets whose "@name ..." clauses are part of the contracts in this run (set before the specs are loaded).
var ActiveFacets = map[string]bool{}

// ParseSpecLines parses the //@ lines of one package (pkgPath is used for type resolution).
func (ss *SpecSet) ParseSpecLines(lines []SpecLine, pkgPath string, keyPrefix string) error {
	// join continuation lines
	type item struct {
		kw, rest string
		src      SpecLine
		facet    string
	}
	var items []item
	skipping := false // inside a clause of an inactive facet (its continuation lines are dropped too)
	for _, l := range lines {
		t := strings.TrimSpace(l.Text)
		if t == "" || strings.HasPrefix(t, "#") {
			continue
		}
		if i := strings.Index(t, " //"); i >= 0 {
			t = strings.TrimSpace(t[:i])
		}
		// "@facet clause...": the clause belongs to a facet and exists only when that facet is active (ActiveFacets)
		facetOff := false
		facet := ""
		if strings.HasPrefix(t, "@") {
			i := strings.IndexAny(t, " \t")
			if i < 0 {
				return fmt.Errorf("%s:%d: facet without clause", l.File, l.Line)
			}
			facet = t[1:i]
			if strings.HasPrefix(facet, "!") {
				// "@!name clause": part of the contract unless the facet is active (hypotheses irrelevant to that facet)
				facetOff = ActiveFacets[facet[1:]]
				facet = ""
			} else {
				facetOff = !ActiveFacets[facet]
			}
			t = strings.TrimSpace(t[i+1:])
		}
		kw := t
		rest := ""
		if i := strings.IndexAny(t, " \t"); i >= 0 {
			kw, rest = t[:i], strings.TrimSpace(t[i+1:])
		}
		if clauseKeywords[kw] {
			skipping = facetOff
			if skipping {
				continue
			}
			items = append(items, item{kw, rest, l, facet})
		} else {
			if skipping {
				continue
			}
			if len(items) == 0 {
				return fmt.Errorf("%s:%d: continuation without clause", l.File, l.Line)
			}
			items[len(items)-1].rest += " " + t
		}
	}
	var cur *FuncSpec
	var curLoop *LoopSpec
	var curCall *CallSpec
	curFacet := ""
	mk := func(kind, text string, src SpecLine) (*Clause, error) {
		name := ""
		tt := strings.TrimSpace(text)
		if strings.HasPrefix(tt, "[") {
			if j := strings.Index(tt, "]"); j > 0 {
				name = tt[1:j]
				tt = strings.TrimSpace(tt[j+1:])
			}
		}
		x, err := ParseSpecExpr(tt)
		if err != nil {
			return nil, fmt.Errorf("%s:%d: %v", src.File, src.Line, err)
		}
		if curFacet != "" {
			// obligations of a facet clause carry the facet in their name (checks select them by "*wf/*")
			if name == "" {
				name = normSpace(tt)
			}
			name = curFacet + "/" + name
		}
		return &Clause{Kind: kind, Text: tt, X: x, Name: name, Src: src}, nil
	}
	for _, it := range items {
		curFacet = it.facet
		switch it.kw {
		case "sort":
			ss.Sorts = append(ss.Sorts, it.rest)
		case "seqsort":
			f := strings.Fields(it.rest)
			if len(f) != 2 {
				return fmt.Errorf("%s:%d: seqsort NAME ELEMSORT", it.src.File, it.src.Line)
			}
			ss.Sorts = append(ss.Sorts, f[0])
			ss.SeqSorts = append(ss.SeqSorts, SeqSort{f[0], f[1]})
		case "fun":
			// fun name(S1, S2) S   (sorts may be parenthesised SMT sorts)
			i := strings.Index(it.rest, "(")
			j := matchParen(it.rest, i)
			if i < 0 || j < 0 {
				return fmt.Errorf("%s:%d: bad fun", it.src.File, it.src.Line)
			}
			fd := FunDecl{Name: strings.TrimSpace(it.rest[:i]), Ret: strings.TrimSpace(it.rest[j+1:])}
			for _, a := range splitTop(it.rest[i+1:j], ',') {
				if a = strings.TrimSpace(a); a != "" {
					fd.Args = append(fd.Args, a)
				}
			}
			ss.Funs = append(ss.Funs, fd)
		case "ghost":
			parts := strings.SplitN(it.rest, " ", 2)
			if len(parts) != 2 {
				return fmt.Errorf("%s:%d: bad ghost", it.src.File, it.src.Line)
			}
			ss.Ghosts = append(ss.Ghosts, GhostVar{parts[0], strings.TrimSpace(parts[1])})
		case "axiom":
			c, err := mk("axiom", it.rest, it.src)
			if err != nil {
				return err
			}
			ss.Axioms = append(ss.Axioms, c)
			ss.AxiomPkg[c] = pkgPath
		case "guarded":
			// guarded T.f by T.lock
			parts := strings.Fields(it.rest)
			if len(parts) != 3 || parts[1] != "by" {
				return fmt.Errorf("%s:%d: bad guarded", it.src.File, it.src.Line)
			}
			ss.Guarded = append(ss.Guarded, GuardDecl{parts[0], parts[2], pkgPath})
		case "define":
			i := strings.Index(it.rest, "(")
			j := matchParen(it.rest, i)
			k := strings.Index(it.rest[j:], "=")
			if i < 0 || j < 0 || k < 0 {
				return fmt.Errorf("%s:%d: bad define", it.src.File, it.src.Line)
			}
			d := &Define{Name: strings.TrimSpace(it.rest[:i]), Pkg: pkgPath}
			for _, a := range splitTop(it.rest[i+1:j], ',') {
				a = strings.TrimSpace(a)
				if a == "" {
					continue
				}
				sp := strings.IndexAny(a, " \t")
				if sp < 0 {
					return fmt.Errorf("%s:%d: define param needs a type", it.src.File, it.src.Line)
				}
				d.Params = append(d.Params, SVarDecl{a[:sp], strings.ReplaceAll(strings.TrimSpace(a[sp+1:]), " ", "")})
			}
			x, err := ParseSpecExpr(it.rest[j+k+1:])
			if err != nil {
				return fmt.Errorf("%s:%d: %v", it.src.File, it.src.Line, err)
			}
			d.Body = x
			ss.Defines[d.Name] = d
		case "func":
			key := it.rest
			if keyPrefix != "" && !strings.Contains(strings.SplitN(key, "(", 2)[0], ".") && !strings.HasPrefix(key, "iface:") {
				key = keyPrefix + "." + key
			}
			if strings.HasPrefix(key, "(") && keyPrefix != "" {
				key = keyPrefix + "." + key
			}
			if _, dup := ss.Funcs[key]; dup {
				return fmt.Errorf("%s:%d: duplicate contract for %s", it.src.File, it.src.Line, key)
			}
			cur = &FuncSpec{Key: key, Loops: map[int]*LoopSpec{}, CallSpecs: map[string]*CallSpec{}, Src: it.src, Pkg: pkgPath, Flags: map[string]string{}}
			ss.Funcs[key] = cur
			ss.Order = append(ss.Order, key)
			curLoop, curCall = nil, nil
		default:
			if cur == nil {
				return fmt.Errorf("%s:%d: clause %q outside func", it.src.File, it.src.Line, it.kw)
			}
			switch it.kw {
			case "pure":
				if curCall != nil {
					curCall.Pure = true
				} else {
					cur.Pure = true
				}
			case "trusted":
				cur.Trusted = true
			case "assert":
				// assert "source snippet" [label] expr : a proof hint checked (and then assumed) after the statement containing the snippet
				r := strings.TrimSpace(it.rest)
				if !strings.HasPrefix(r, "\"") {
					return fmt.Errorf("%s:%d: assert needs a quoted source snippet", it.src.File, it.src.Line)
				}
				j := strings.Index(r[1:], "\"")
				if j < 0 {
					return fmt.Errorf("%s:%d: unterminated snippet", it.src.File, it.src.Line)
				}
				snippet := r[1 : 1+j]
				c, err := mk("assert", r[j+2:], it.src)
				if err != nil {
					return err
				}
				cur.Asserts = append(cur.Asserts, &AssertHint{Snippet: snippet, C: c})
			case "loopfresh":
				if curLoop == nil {
					return fmt.Errorf("%s:%d: loopfresh outside loop", it.src.File, it.src.Line)
				}
				curLoop.FreshOnly = true
			case "witness":
				// witness name(S1, S2) S : a fresh function symbol per application (assumed contracts only)
				i := strings.Index(it.rest, "(")
				j := matchParen(it.rest, i)
				if i < 0 || j < 0 {
					return fmt.Errorf("%s:%d: bad witness", it.src.File, it.src.Line)
				}
				fd := FunDecl{Name: strings.TrimSpace(it.rest[:i]), Ret: strings.TrimSpace(it.rest[j+1:])}
				for _, a := range splitTop(it.rest[i+1:j], ',') {
					if a = strings.TrimSpace(a); a != "" {
						fd.Args = append(fd.Args, a)
					}
				}
				cur.Witnesses = append(cur.Witnesses, fd)
			case "lemma":
				cur.Lemma = true
			case "induction":
				// induction x by measure
				f := strings.SplitN(it.rest, " by ", 2)
				if len(f) != 2 {
					return fmt.Errorf("%s:%d: induction VAR by MEASURE", it.src.File, it.src.Line)
				}
				mx, err := ParseSpecExpr(strings.TrimSpace(f[1]))
				if err != nil {
					return fmt.Errorf("%s:%d: %v", it.src.File, it.src.Line, err)
				}
				cur.Induction = &InductionSpec{Var: strings.TrimSpace(f[0]), Measure: mx, Src: it.src}
			case "monitorenter":
				// monitorenter "source snippet" modifies a, b, c assume EXPR
				r := strings.TrimSpace(it.rest)
				if !strings.HasPrefix(r, "\"") {
					return fmt.Errorf("%s:%d: monitorenter needs a quoted source snippet", it.src.File, it.src.Line)
				}
				q := strings.Index(r[1:], "\"")
				if q < 0 {
					return fmt.Errorf("%s:%d: unterminated snippet", it.src.File, it.src.Line)
				}
				snippet := r[1 : 1+q]
				rest := strings.TrimSpace(r[q+2:])
				if !strings.HasPrefix(rest, "modifies ") || !strings.Contains(rest, " assume ") {
					return fmt.Errorf("%s:%d: monitorenter \"snippet\" modifies ITEMS assume EXPR", it.src.File, it.src.Line)
				}
				k := strings.Index(rest, " assume ")
				var mods []*Clause
				for _, m := range splitTop(rest[len("modifies "):k], ',') {
					c, err := mk("modifies", strings.TrimSpace(m), it.src)
					if err != nil {
						return err
					}
					mods = append(mods, c)
				}
				c, err := mk("assume", rest[k+len(" assume "):], it.src)
				if err != nil {
					return err
				}
				cur.Asserts = append(cur.Asserts, &AssertHint{Snippet: snippet, C: c, Enter: mods})
			case "uselemma":
				// uselemma ["source snippet"] name(arg, _, ...)
				snippet := ""
				if r := strings.TrimSpace(it.rest); strings.HasPrefix(r, "\"") {
					q := strings.Index(r[1:], "\"")
					if q < 0 {
						return fmt.Errorf("%s:%d: unterminated snippet", it.src.File, it.src.Line)
					}
					snippet = r[1 : 1+q]
					it.rest = strings.TrimSpace(r[q+2:])
				}
				i := strings.Index(it.rest, "(")
				j := matchParen(it.rest, i)
				if i < 0 || j < 0 {
					return fmt.Errorf("%s:%d: bad uselemma", it.src.File, it.src.Line)
				}
				key := strings.TrimSpace(it.rest[:i])
				if keyPrefix != "" && !strings.Contains(key, ".") {
					key = keyPrefix + "." + key
				}
				ul := &UseLemma{Key: key, Src: it.src}
				for _, a := range splitTop(it.rest[i+1:j], ',') {
					a = strings.TrimSpace(a)
					if a == "_" {
						ul.Args = append(ul.Args, nil)
						continue
					}
					ax, err := ParseSpecExpr(a)
					if err != nil {
						return fmt.Errorf("%s:%d: %v", it.src.File, it.src.Line, err)
					}
					ul.Args = append(ul.Args, ax)
				}
				if snippet != "" {
					cur.Asserts = append(cur.Asserts, &AssertHint{Snippet: snippet, Use: ul, C: &Clause{Kind: "uselemma", Text: it.rest, Src: it.src}})
				} else {
					cur.UseLemmas = append(cur.UseLemmas, ul)
				}
			case "inline":
				cur.Inline = true
			case "noinline":
				cur.NoInline = true
			case "replay":
				cur.Replay = it.rest
			case "prop":
				cur.Props = append(cur.Props, strings.Fields(it.rest)...)
			case "flag":
				parts := strings.SplitN(it.rest, " ", 2)
				v := "1"
				if len(parts) == 2 {
					v = parts[1]
				}
				cur.Flags[parts[0]] = v
			case "loop":
				n, err := strconv.Atoi(strings.Fields(it.rest)[0])
				if err != nil {
					return fmt.Errorf("%s:%d: loop index: %v", it.src.File, it.src.Line, err)
				}
				curLoop = &LoopSpec{Index: n}
				cur.Loops[n] = curLoop
				curCall = nil
			case "callspec":
				// callspec <param> ensures|requires <expr>   or   callspec <param> pure
				parts := strings.SplitN(strings.TrimSpace(it.rest), " ", 3)
				cs := cur.CallSpecs[parts[0]]
				if cs == nil {
					cs = &CallSpec{Param: parts[0]}
					cur.CallSpecs[parts[0]] = cs
				}
				if len(parts) >= 2 {
					switch parts[1] {
					case "pure":
						cs.Pure = true
					case "ensures", "requires":
						if len(parts) < 3 {
							return fmt.Errorf("%s:%d: callspec clause without expression", it.src.File, it.src.Line)
						}
						c, err := mk(parts[1], parts[2], it.src)
						if err != nil {
							return err
						}
						if parts[1] == "ensures" {
							cs.Ensures = append(cs.Ensures, c)
						} else {
							cs.Requires = append(cs.Requires, c)
						}
					default:
						return fmt.Errorf("%s:%d: bad callspec clause %q", it.src.File, it.src.Line, parts[1])
					}
				}
			case "requires", "ensures", "modifies", "invariant", "decreases", "observe", "loopmodifies", "lockrequires", "lockensures", "lockinvariant", "assumes", "loopkeeps", "acquires":
				texts := []string{it.rest}
				if it.kw == "modifies" || it.kw == "loopmodifies" || it.kw == "observe" || it.kw == "loopkeeps" {
					texts = splitTop(it.rest, ',')
				}
				for _, tx := range texts {
					c, err := mk(it.kw, tx, it.src)
					if err != nil {
						return err
					}
					switch it.kw {
					case "requires":
						if curCall != nil {
							curCall.Requires = append(curCall.Requires, c)
						} else {
							cur.Requires = append(cur.Requires, c)
						}
					case "ensures":
						if curCall != nil {
							curCall.Ensures = append(curCall.Ensures, c)
						} else {
							cur.Ensures = append(cur.Ensures, c)
						}
					case "acquires":
						cur.Acquires = append(cur.Acquires, c)
					case "assumes":
						cur.Assumes = append(cur.Assumes, c)
					case "lockrequires":
						cur.LockRequires = append(cur.LockRequires, c)
					case "lockensures":
						cur.LockEnsures = append(cur.LockEnsures, c)
					case "modifies":
						cur.Modifies = append(cur.Modifies, c)
					case "observe":
						cur.Observe = append(cur.Observe, c)
					case "lockinvariant":
						if curLoop == nil {
							return fmt.Errorf("%s:%d: lockinvariant outside loop", it.src.File, it.src.Line)
						}
						curLoop.LockInvariants = append(curLoop.LockInvariants, c)
					case "invariant":
						if curLoop == nil {
							return fmt.Errorf("%s:%d: invariant outside loop", it.src.File, it.src.Line)
						}
						curLoop.Invariants = append(curLoop.Invariants, c)
					case "loopkeeps":
						if curLoop == nil {
							return fmt.Errorf("%s:%d: loopkeeps outside loop", it.src.File, it.src.Line)
						}
						curLoop.Keeps = append(curLoop.Keeps, c)
					case "loopmodifies":
						if curLoop == nil {
							return fmt.Errorf("%s:%d: loopmodifies outside loop", it.src.File, it.src.Line)
						}
						curLoop.Modifies = append(curLoop.Modifies, c)
					case "decreases":
						if curLoop == nil {
							return fmt.Errorf("%s:%d: decreases outside loop", it.src.File, it.src.Line)
						}
						curLoop.Decreases = c
					}
				}
			}
		}
	}
	return nil
}

func matchParen(s string, i int) int {
	if i < 0 || i >= len(s) {
		return -1
	}
	d := 0
	for j := i; j < len(s); j++ {
		switch s[j] {
		case '(':
			d++
		case ')':
			d--
			if d == 0 {
				return j
			}
		}
	}
	return -1
}

func splitTop(s string, sep rune) []string {
	var out []string
	d := 0
	last := 0
	for i, c := range s {
		switch c {
		case '(', '[':
			d++
		case ')', ']':
			d--
		default:
			if c == sep && d == 0 {
				out = append(out, s[last:i])
				last = i + 1
			}
		}
	}
	out = append(out, s[last:])
	return out
}
