package main

import (
	"fmt"
	"go/token"
	"go/types"
	"strings"

	"golang.org/x/tools/go/ssa"
)

// ---------- loops ----------

func (a *act) loopLabel(li *loopInfo) string { return fmt.Sprintf("loop%d", li.index) }

func (a *act) invs(li *loopInfo) []*Clause {
	if li.spec == nil {
		return nil
	}
	if a.fx.lockMode {
		return append(append([]*Clause{}, li.spec.Invariants...), li.spec.LockInvariants...)
	}
	return li.spec.Invariants
}

func (a *act) invEnv(li *loopInfo, st *State) *SEnv {
	qn := 0
	env := &SEnv{vars: map[string]Val{}, act: a, header: li.header, nowOld: a.fx.nowEntry, qn: &qn}
	if a.spec != nil {
		env.pkg = a.spec.Pkg
	}
	for _, p := range a.fn.Params {
		env.vars[p.Name()] = a.vals[p]
	}
	for _, fv := range a.fn.FreeVars {
		env.vars[fv.Name()] = a.vals[fv]
	}
	if li.entryState != nil {
		env.vars["$nowloop"] = Val{T: a.fx.now(li.entryState), S: SInt}
	}
	return env
}

// autoInvariants: bounds of range-index loops, checked like user invariants.
func (a *act) autoInvariants(li *loopInfo, st *State) []string {
	var out []string
	if a.fx.lockMode && a.top {
		w, _ := a.loopWrites(li)
		h := a.fx.sv(st, "held", ArrS(SRef, SInt))
		if w["held"] != "" {
			// lock state at a loop head: locks of pre-existing objects are as at loop entry
			var h0 string
			if li.entryState != nil {
				h0 = a.fx.sv(li.entryState, "held", ArrS(SRef, SInt))
			} else {
				h0 = h
			}
			if h0 != h {
				out = append(out, fmt.Sprintf("(forall ((o Ref)) (! (=> (< (epoch o) %s) (= (select %s o) (select %s o))) :pattern ((select %s o))))", a.fx.now(li.entryState), h, h0, h))
			}
		}
		if w["held"] != "" || w["$now"] != "" {
			// locks of objects allocated since function entry are free, unless they were already held at loop entry
			if li.entryState != nil {
				out = append(out, fmt.Sprintf("(forall ((o Ref)) (! (=> (and (>= (epoch o) %s) (< (epoch o) %s)) (= (select %s o) 0)) :pattern ((select %s o))))", a.fx.now(li.entryState), a.fx.now(st), h, h))
			}
		}
	}
	for _, in := range li.header.Instrs {
		phi, ok := in.(*ssa.Phi)
		if !ok {
			break
		}
		if phi.Comment != "rangeindex" {
			// every live reference was allocated before "now"
			pv := a.vals[phi]
			switch pv.S {
			case SRef:
				out = append(out, fmt.Sprintf("(< (epoch %s) %s)", pv.T, a.fx.now(st)))
			case SIface:
				out = append(out, fmt.Sprintf("(< (epoch (iref %s)) %s)", pv.T, a.fx.now(st)))
			case SSlice:
				out = append(out, fmt.Sprintf("(< (epoch (sbase %s)) %s)", pv.T, a.fx.now(st)))
			}
			continue
		}
		pv := a.vals[phi]
		out = append(out, fmt.Sprintf("(<= (- 1) %s)", pv.T))
		// find  if (phi+1) < L
		if ifi, ok := li.header.Instrs[len(li.header.Instrs)-1].(*ssa.If); ok {
			if cmp, ok := ifi.Cond.(*ssa.BinOp); ok && cmp.Op == token.LSS {
				if add, ok := cmp.X.(*ssa.BinOp); ok && add.X == phi {
					if lv, ok := a.vals[cmp.Y]; ok {
						out = append(out, fmt.Sprintf("(< %s %s)", pv.T, lv.T))
					}
				}
			}
		}
	}
	return out
}

func (a *act) loopHead(li *loopInfo, b *ssa.BasicBlock, preds []*ssa.BasicBlock, reach string, cur *State) *State {
	fx := a.fx
	li.entryState = cur.clone()
	// phi values on entry: bind temporarily
	saved := map[*ssa.Phi]Val{}
	for _, in := range b.Instrs {
		phi, ok := in.(*ssa.Phi)
		if !ok {
			break
		}
		saved[phi] = a.vals[phi]
		var ev Val
		n := 0
		for i, p := range b.Preds {
			if b.Dominates(p) {
				continue
			}
			if _, ok := a.edge[[2]int{p.Index, b.Index}]; !ok {
				continue
			}
			v := a.val(phi.Edges[i], a.exitSt[p])
			if n == 0 {
				ev = v
			} else if v.T != ev.T {
				// several entry edges with different values: merged constant
				c := fx.ctx.Fresh("phientry", a.sortOf(phi.Type()))
				for j, q := range b.Preds {
					if b.Dominates(q) {
						continue
					}
					if ec, ok := a.edge[[2]int{q.Index, b.Index}]; ok {
						fx.ctx.Assert(Imp(ec, Eq(c, a.val(phi.Edges[j], a.exitSt[q]).T)))
					}
				}
				ev = Val{T: c, S: a.sortOf(phi.Type()), GT: phi.Type()}
			}
			n++
		}
		ev.GT = phi.Type()
		a.vals[phi] = ev
	}
	// entry obligations
	env := a.invEnv(li, cur)
	if li.spec != nil {
		for i, inv := range a.invs(li) {
			t := a.safeSpec(inv, env, cur)
			fx.addObl("inv-entry", fmt.Sprintf("%s%s:%s", a.prefix(), a.loopLabel(li), invName(inv, i)), reach, t, b.Instrs[0].Pos(), "loop invariant on entry")
		}
	}
	for phi, v := range saved {
		_ = v
		// auto invariants on entry need phi entry values
		_ = phi
	}
	autos := a.autoInvariants(li, cur)
	for i, t := range autos {
		fx.addObl("inv-entry", fmt.Sprintf("%s%s:auto%d", a.prefix(), a.loopLabel(li), i), reach, t, token.NoPos, "range bound on entry")
	}
	// restore havocked phi constants
	for phi, v := range saved {
		a.vals[phi] = v
	}
	// havoc
	head := cur.clone()
	writes, all := a.loopWrites(li)
	if all {
		for _, name := range sortedKeys(fx.svSort) {
			writes[name] = fx.svSort[name]
		}
		fx.notes = append(fx.notes, fmt.Sprintf("%s: loop %d havocs the whole state (call without frame)", FuncKey(a.fn), li.index))
	}
	nowBefore := fx.now(cur)
	for _, name := range sortedKeys(writes) {
		fx.havocSV(head, name, writes[name])
	}
	fx.ctx.Assert(fmt.Sprintf("(>= %s %s)", fx.now(head), nowBefore))
	for _, name := range sortedKeys(writes) {
		if !strings.HasPrefix(name, "$") {
			fx.heapAllocFacts(writes[name], fx.sv(head, name, writes[name]), fx.now(head), "true")
		}
	}
	li.headState = head.clone()
	// loop frame from loopmodifies (assumed here, re-proved at each back edge)
	for _, f := range a.loopFrames(li, head) {
		fx.ctx.Assert(Imp(reach, f))
	}
	// assume invariants
	env = a.invEnv(li, head)
	if li.spec != nil {
		for _, inv := range a.invs(li) {
			fx.ctx.Assert(Imp(reach, a.safeSpec(inv, env, head)))
		}
	}
	for _, t := range a.autoInvariants(li, head) {
		fx.ctx.Assert(Imp(reach, t))
	}
	return head
}

func invName(c *Clause, i int) string {
	if c.Name != "" {
		return c.Name
	}
	return normSpace(c.Text)
}

// safeSpec evaluates a loop clause; a clause that no longer resolves against the code (renamed or removed variable)
// is dropped and the function is marked degraded: its failed obligations then count only when a replay confirms them.
func (a *act) safeSpec(c *Clause, env *SEnv, st *State) (out string) {
	defer func() {
		if r := recover(); r != nil {
			if se, ok := r.(specError); ok {
				msg := fmt.Sprintf("loop clause %q does not resolve: %s", normSpace(c.Text), se.msg)
				dup := false
				for _, d := range a.fx.degraded {
					if d == msg {
						dup = true
					}
				}
				if !dup {
					a.fx.degraded = append(a.fx.degraded, msg)
				}
				out = "true"
				return
			}
			panic(r)
		}
	}()
	return a.fx.specTerm(c.X, env, st, a.fx.entry, env.pkg)
}

// loopFrames: with a loopmodifies clause, heap arrays written in the loop keep the loop-entry contents at every
// object that existed at loop entry and is not listed.
func (a *act) loopFrames(li *loopInfo, st *State) []string {
	out := a.loopFrames0(li, st)
	if li.spec != nil && len(li.spec.Keeps) > 0 {
		fx := a.fx
		env := a.invEnv(li, li.entryState)
		for _, it := range fx.modItems(li.spec.Keeps, env, li.entryState) {
			cur := fx.sv(st, it.heap, it.sort)
			old := fx.sv(li.entryState, it.heap, it.sort)
			if it.obj == "" {
				out = append(out, Eq(cur, old))
			} else {
				out = append(out, Eq(Sel(cur, it.obj), Sel(old, it.obj)))
			}
		}
	}
	return out
}

func (a *act) loopFrames0(li *loopInfo, st *State) []string {
	if li.spec != nil && li.spec.FreshOnly {
		// declared: the loop only modifies objects allocated after function entry
		var out []string
		writes, _ := a.loopWrites(li)
		for _, name := range sortedKeys(writes) {
			if strings.HasPrefix(name, "$") {
				continue
			}
			srt := writes[name]
			if k, _, isArr := splitArr(srt); !isArr || k != SRef {
				continue
			}
			out = append(out, fmt.Sprintf("(forall ((o Ref)) (! (=> (< (epoch o) %s) (= (select %s o) (select %s o))) :pattern ((select %s o))))",
				a.fx.nowEntry, a.fx.sv(st, name, srt), a.fx.sv(li.entryState, name, srt), a.fx.sv(st, name, srt)))
		}
		return out
	}
	if li.spec == nil || len(li.spec.Modifies) == 0 {
		return a.defaultLoopFrames(li, st)
	}
	fx := a.fx
	env := a.invEnv(li, li.entryState)
	items := fx.modItems(li.spec.Modifies, env, li.entryState)
	writes, _ := a.loopWrites(li)
	var out []string
	nowLE := fx.now(li.entryState)
	for _, name := range sortedKeys(writes) {
		if strings.HasPrefix(name, "$") {
			continue
		}
		srt := writes[name]
		k, _, ok := splitArr(srt)
		if !ok || k != SRef {
			continue
		}
		var excl []string
		whole := false
		for _, it := range items {
			if it.heap == name {
				if it.obj == "" {
					whole = true
				} else {
					excl = append(excl, Not(Eq("o", it.obj)))
				}
			}
		}
		if whole {
			continue
		}
		cond := And(append([]string{fmt.Sprintf("(< (epoch o) %s)", nowLE)}, excl...)...)
		out = append(out, fmt.Sprintf("(forall ((o Ref)) (! (=> %s (= (select %s o) (select %s o))) :pattern ((select %s o))))",
			cond, fx.sv(st, name, srt), fx.sv(li.entryState, name, srt), fx.sv(st, name, srt)))
	}
	return out
}

func (a *act) backEdge(li *loopInfo, from *ssa.BasicBlock, cond string, st *State) {
	fx := a.fx
	b := li.header
	idx := -1
	for i, p := range b.Preds {
		if p == from {
			idx = i
		}
	}
	saved := map[*ssa.Phi]Val{}
	for _, in := range b.Instrs {
		phi, ok := in.(*ssa.Phi)
		if !ok {
			break
		}
		saved[phi] = a.vals[phi]
		v := a.val(phi.Edges[idx], st)
		v.GT = phi.Type()
		a.vals[phi] = v
	}
	env := a.invEnv(li, st)
	if li.spec != nil {
		for i, inv := range a.invs(li) {
			t := a.safeSpec(inv, env, st)
			fx.addObl("inv-step", fmt.Sprintf("%s%s:%s", a.prefix(), a.loopLabel(li), invName(inv, i)), cond, t, from.Instrs[len(from.Instrs)-1].Pos(), "loop invariant preserved")
		}
	}
	for i, t := range a.autoInvariants(li, st) {
		fx.addObl("inv-step", fmt.Sprintf("%s%s:auto%d", a.prefix(), a.loopLabel(li), i), cond, t, token.NoPos, "range bound preserved")
	}
	for i, f := range a.loopFrames(li, st) {
		fx.addObl("inv-step", fmt.Sprintf("%s%s:frame%d", a.prefix(), a.loopLabel(li), i), cond, f, token.NoPos, "loop frame preserved")
	}
	for phi, v := range saved {
		a.vals[phi] = v
	}
}

// ---------- modifies ----------

type modItem struct {
	heap string
	sort Sort
	obj  string // "" = whole variable
	key  string // for ghost arrays keyed by non-Ref
}

// modItems evaluates modifies clauses to heap locations.
func (fx *FX) modItems(cl []*Clause, env *SEnv, st *State) []modItem {
	var out []modItem
	for _, c := range cl {
		out = append(out, fx.modItem(c.X, env, st)...)
	}
	return out
}

func (fx *FX) modItem(x *SX, env *SEnv, st *State) []modItem {
	e := fx.eng
	a := &act{fx: fx}
	switch x.K {
	case "sel":
		v := fx.specVal(x, env, st, st)
		if v.Loc == nil {
			specErrf("modifies: %s is not a field location", x)
		}
		return []modItem{{heap: v.Loc.Heap, sort: ArrS(SRef, e.SortOf(v.Loc.GT)), obj: v.Loc.Obj}}
	case "id":
		if s, ok := e.ghostSort[x.Name]; ok {
			return []modItem{{heap: x.Name, sort: s}}
		}
		// a local variable that lives in a heap cell (captured by a closure)
		if v := fx.specVal(x, env, st, st); v.Loc != nil {
			return []modItem{{heap: v.Loc.Heap, sort: ArrS(SRef, e.SortOf(v.Loc.GT)), obj: v.Loc.Obj}}
		}
	case "idx":
		if x.A[0].K == "id" {
			if s, ok := e.ghostSort[x.A[0].Name]; ok {
				k := fx.specVal(x.A[1], env, st, st)
				return []modItem{{heap: x.A[0].Name, sort: s, obj: k.T}}
			}
		}
	case "call":
		if x.A[0].K == "id" {
			switch x.A[0].Name {
			case "elems":
				v := fx.specVal(x.A[1], env, st, st)
				et := v.GT.Underlying().(*types.Slice).Elem()
				return []modItem{{heap: "Elem!" + typeName(et), sort: ArrS(SRef, ArrS(SInt, e.SortOf(et))), obj: App("sbase", v.T)}}
			case "mapof":
				v := fx.specVal(x.A[1], env, st, st)
				mt := v.GT.Underlying().(*types.Map)
				has, val, ln := a.mapHeaps(mt)
				ks, vs := e.SortOf(mt.Key()), e.SortOf(mt.Elem())
				return []modItem{{heap: has, sort: ArrS(SRef, ArrS(ks, SBool)), obj: v.T}, {heap: val, sort: ArrS(SRef, ArrS(ks, vs)), obj: v.T}, {heap: ln, sort: ArrS(SRef, SInt), obj: v.T}}
			case "cell":
				v := fx.specVal(x.A[1], env, st, st)
				if v.GT == nil {
					specErrf("cell() of an untyped value")
				}
				if _, isPtr := v.GT.Underlying().(*types.Pointer); !isPtr {
					if v.Loc != nil {
						// the name already denotes the content of a cell: the cell itself is its location
						return []modItem{{heap: v.Loc.Heap, sort: ArrS(SRef, e.SortOf(v.Loc.GT)), obj: v.Loc.Obj}}
					}
					specErrf("cell() of a value that is not a pointer (%s)", v.GT)
				}
				et := derefType(v.GT)
				return []modItem{{heap: "Cell!" + typeName(et), sort: ArrS(SRef, e.SortOf(et)), obj: v.T}}
			case "chanof":
				v := fx.specVal(x.A[1], env, st, st)
				et := v.GT.Underlying().(*types.Chan).Elem()
				return []modItem{{heap: "ChanClosed", sort: ArrS(SRef, SBool), obj: v.T}, {heap: "ChanLen", sort: ArrS(SRef, SInt), obj: v.T},
					{heap: "ChanSent!" + typeName(et), sort: ArrS(SRef, ArrS(SInt, e.SortOf(et))), obj: v.T}}
			case "fields":
				v := fx.specVal(x.A[1], env, st, st)
				stT, obj, ok := fx.structOf(v)
				if !ok {
					specErrf("fields(): %s is not a struct pointer", x.A[1])
				}
				var out []modItem
				su := stT.Underlying().(*types.Struct)
				for i := 0; i < su.NumFields(); i++ {
					ft := su.Field(i).Type()
					if _, isS := ft.Underlying().(*types.Struct); isS && !isCid(ft) {
						continue
					}
					out = append(out, modItem{heap: fieldHeap(stT, i), sort: ArrS(SRef, e.SortOf(ft)), obj: obj})
				}
				return out
			case "global":
				// global("pkg.Name", "type")
				name := "G!" + x.A[1].Str
				srt, _ := e.resolveType(x.A[2].Str, env.pkg)
				return []modItem{{heap: name, sort: srt}}
			}
		}
	}
	specErrf("unsupported modifies item %s", x)
	return nil
}

// modifiesVars: static over-approximation of the state variables a modifies clause touches (types only).
func (fx *FX) modifiesVars(x *SX, sp *FuncSpec) (vars map[string]Sort, ok bool) {
	vars = map[string]Sort{}
	defer func() {
		if r := recover(); r != nil {
			if _, isSpec := r.(specError); isSpec {
				ok = false
				return
			}
			if _, isUns := r.(unsupported); isUns {
				ok = false
				return
			}
			panic(r)
		}
	}()
	env := fx.dummyEnv(sp)
	tmp := &State{vars: map[string]string{}}
	for _, it := range fx.modItem(x, env, tmp) {
		vars[it.heap] = it.sort
	}
	return vars, true
}

// dummyEnv binds a contract's parameters to placeholder terms (type information only).
func (fx *FX) dummyEnv(sp *FuncSpec) *SEnv {
	qn := 0
	env := &SEnv{vars: map[string]Val{}, pkg: sp.Pkg, nowOld: "0", qn: &qn}
	e := fx.eng
	if fn := e.prog.funcByKeyAny(sp.Key); fn != nil {
		for i, p := range fn.Params {
			v := Val{T: "?", S: e.SortOf(p.Type()), GT: p.Type()}
			env.vars[p.Name()] = v
			env.vars[fmt.Sprintf("$%d", i)] = v
		}
	} else if m := e.ifaceMethod(sp.Key); m != nil {
		sig := m.Type().(*types.Signature)
		recvT := sig.Recv().Type()
		env.vars["recv"] = Val{T: "?", S: e.SortOf(recvT), GT: recvT}
		for i := 0; i < sig.Params().Len(); i++ {
			p := sig.Params().At(i)
			v := Val{T: "?", S: e.SortOf(p.Type()), GT: p.Type()}
			if p.Name() != "" {
				env.vars[p.Name()] = v
			}
			env.vars[fmt.Sprintf("$%d", i+1)] = v
		}
	}
	return env
}

// ---------- contract application at a call site ----------

// callEnv binds parameter names (and positional $i) and result names.
func (a *act) callEnv(fn *ssa.Function, sig *types.Signature, args []Val, result Val) *SEnv {
	qn := 0
	env := &SEnv{vars: map[string]Val{}, qn: &qn}
	if fn != nil {
		for i, p := range fn.Params {
			if i < len(args) {
				v := args[i]
				v.GT = p.Type()
				env.vars[p.Name()] = v
			}
		}
		// named results
		if fn.Signature.Results() != nil {
			for i := 0; i < fn.Signature.Results().Len(); i++ {
				if n := fn.Signature.Results().At(i).Name(); n != "" && n != "_" {
					if result.S == "Tuple" && i < len(result.Tuple) {
						env.vars[n] = result.Tuple[i]
					} else if i == 0 && result.S != "Tuple" {
						env.vars[n] = result
					}
				}
			}
		}
	} else if sig != nil {
		off := 0
		if sig.Recv() != nil && len(args) == sig.Params().Len()+1 {
			v := args[0]
			v.GT = sig.Recv().Type()
			env.vars["recv"] = v
			off = 1
		}
		for i := 0; i < sig.Params().Len() && i+off < len(args); i++ {
			p := sig.Params().At(i)
			v := args[i+off]
			v.GT = p.Type()
			if p.Name() != "" && p.Name() != "_" {
				env.vars[p.Name()] = v
			}
		}
	}
	for i, v := range args {
		env.vars[fmt.Sprintf("$%d", i)] = v
	}
	if result.S == "Tuple" {
		for i, r := range result.Tuple {
			env.vars[fmt.Sprintf("result%d", i)] = r
		}
		if n := len(result.Tuple); n > 0 {
			last := result.Tuple[n-1]
			if last.S == SIface {
				if _, has := env.vars["err"]; !has {
					env.vars["err"] = last
				}
			}
			if n == 2 {
				env.vars["result"] = result.Tuple[0]
			}
		}
	} else if result.S != "" {
		env.vars["result"] = result
		env.vars["result0"] = result
		if result.S == SIface {
			if _, has := env.vars["err"]; !has && result.GT != nil && types.Identical(result.GT, types.Universe.Lookup("error").Type()) {
				env.vars["err"] = result
			}
		}
	}
	return env
}

func (a *act) applyContract(sp *FuncSpec, fn *ssa.Function, m *types.Func, args []Val, guard string, st *State, pos token.Pos, sig *types.Signature) Val {
	fx := a.fx
	fx.usedSpec[sp.Key] = true
	if sp.Trusted {
		fx.trusted[sp.Key] = true
	}
	var csig *types.Signature
	if fn != nil {
		csig = fn.Signature
	} else {
		csig = m.Type().(*types.Signature)
	}
	pre := st.clone()
	// preconditions
	env := a.callEnv(fn, csig, args, Val{})
	env.pkg = sp.Pkg
	env.nowOld = fx.now(pre)
	short := sp.Key
	reqs := sp.Requires
	enss := sp.Ensures
	if fx.lockMode {
		reqs = append(append([]*Clause{}, reqs...), sp.LockRequires...)
		enss = append(append([]*Clause{}, enss...), sp.LockEnsures...)
	}
	if len(sp.Assumes) > 0 {
		enss = append(append([]*Clause{}, enss...), sp.Assumes...)
		for _, c := range sp.Assumes {
			name := c.Name
			if name == "" {
				name = c.Text
			}
			fx.eng.assume("assumed postcondition of " + sp.Key + ": " + name)
		}
	}
	for i, r := range reqs {
		t := fx.specTerm(r.X, env, pre, pre, sp.Pkg)
		name := r.Name
		if name == "" {
			name = normSpace(r.Text)
		}
		_ = i
		fx.addObl("pre@"+short, a.prefix()+name, guard, t, pos, "precondition of "+sp.Key)
	}
	if fx.lockMode && a.top {
		for _, ac := range sp.Acquires {
			lk := fx.specVal(ac.X, env, pre, pre)
			acq := fx.sv(st, "$acq", ArrS(SRef, SInt))
			what := fx.eng.srcText(pos, nil)
			fx.addObl("atomic", a.prefix()+"single critical section on "+normSpace(ac.Text)+": "+what, guard, Eq(Sel(acq, lk.T), "0"), pos, "the same lock's critical section is entered a second time: the two reads do not see one consistent state")
			fx.setSV(st, "$acq", ArrS(SRef, SInt), Store(acq, lk.T, "1"))
		}
	}
	// function-typed arguments with a callspec: a statically known argument is checked against it here
	if fn != nil {
		for i, prm := range fn.Params {
			cs := sp.CallSpecs[prm.Name()]
			if cs == nil || i >= len(args) {
				continue
			}
			if args[i].Fn == nil {
				fx.eng.assume("callspec of " + sp.Key + ":" + prm.Name() + " is assumed for function values that are not statically known")
				continue
			}
			a.checkCallSpec(sp, cs, prm.Name(), args[i], guard, pre, pos)
		}
	}
	// havoc modified locations
	items := fx.modItems(sp.Modifies, env, pre)
	byHeap := map[string][]modItem{}
	var heaps []string
	for _, it := range items {
		if _, ok := byHeap[it.heap]; !ok {
			heaps = append(heaps, it.heap)
		}
		byHeap[it.heap] = append(byHeap[it.heap], it)
	}
	nowBefore := fx.now(pre)
	for _, h := range heaps {
		its := byHeap[h]
		srt := its[0].sort
		oldT := fx.sv(pre, h, srt)
		newT := fx.havocSV(st, h, srt)
		whole := false
		var excl []string
		for _, it := range its {
			if it.obj == "" {
				whole = true
			}
			excl = append(excl, Not(Eq("o", it.obj)))
		}
		if whole {
			continue
		}
		k, _, isArr := splitArr(srt)
		if !isArr {
			continue
		}
		cond := And(excl...)
		if k == SRef {
			cond = And(fmt.Sprintf("(< (epoch o) %s)", nowBefore), cond)
		}
		fx.ctx.Assert(Imp(guard, fmt.Sprintf("(forall ((o %s)) (! (=> %s (= (select %s o) (select %s o))) :pattern ((select %s o))))", k, cond, newT, oldT, newT)))
	}
	if _, noalloc := sp.Flags["noalloc"]; !sp.Pure && !noalloc {
		n := fx.havocSV(st, "$now", SInt)
		fx.ctx.Assert(fmt.Sprintf("(>= %s %s)", n, nowBefore))
	}
	for _, h := range heaps {
		fx.heapAllocFacts(byHeap[h][0].sort, fx.sv(st, h, byHeap[h][0].sort), fx.now(st), "true")
	}
	if _, noalloc := sp.Flags["noalloc"]; !sp.Pure && !noalloc {
		// objects created by the callee only point to objects that exist when it returns (also in heaps it does not "modify")
		done := map[string]bool{}
		for _, h := range heaps {
			done[h] = true
		}
		for _, name := range sortedKeys(fx.svSort) {
			if done[name] || strings.HasPrefix(name, "$") {
				continue
			}
			srt := fx.svSort[name]
			if k, v, ok := splitArr(srt); ok && k == SRef && (v == SRef || v == SIface || v == SSlice) {
				fx.heapAllocFacts(srt, fx.sv(st, name, srt), fx.now(st), "true")
			}
		}
	}
	// decoder-style callees fill the struct behind an interface argument with arbitrary values of the field types
	if hv, ok := sp.Flags["havocarg"]; ok {
		a.havocArg(hv, args, st, guard, nowBefore)
	}
	// results
	out := a.freshResults(csig, shortName(sp.Key), guard)
	env = a.callEnv(fn, csig, args, out)
	env.pkg = sp.Pkg
	env.nowOld = nowBefore
	if len(sp.Witnesses) > 0 {
		if !sp.Trusted {
			specErrf("witness functions are only allowed in assumed (trusted) contracts: %s", sp.Key)
		}
		env.funs = map[string]FunDecl{}
		for _, w := range sp.Witnesses {
			var as []Sort
			for _, x := range w.Args {
				as = append(as, Sort(x))
			}
			fx.ctx.fresh["wit!"+w.Name]++
			sym := fx.ctx.DeclareFun(fmt.Sprintf("wit!%s@%d", w.Name, fx.ctx.fresh["wit!"+w.Name]), as, Sort(w.Ret))
			env.funs[w.Name] = FunDecl{Name: sym, Args: w.Args, Ret: w.Ret}
		}
	}
	for _, en := range enss {
		t := fx.specTerm(en.X, env, st, pre, sp.Pkg)
		fx.ctx.Assert(Imp(guard, t))
	}
	// everything a callee returns was allocated before it returned
	a.allocatedFacts(out, st, guard)
	if fx.lockMode {
		// objects allocated by the callee come back with their locks free (checked for every verified function at its returns)
		h := fx.sv(st, "held", ArrS(SRef, SInt))
		fx.ctx.Assert(Imp(guard, fmt.Sprintf("(forall ((o Ref)) (! (=> (and (>= (epoch o) %s) (< (epoch o) %s)) (= (select %s o) 0)) :pattern ((select %s o))))", nowBefore, fx.now(st), h, h)))
	}
	return out
}

func (a *act) allocatedFacts(v Val, st *State, guard string) {
	fx := a.fx
	if v.S == "Tuple" {
		for _, x := range v.Tuple {
			a.allocatedFacts(x, st, guard)
		}
		return
	}
	now := fx.now(st)
	switch v.S {
	case SRef:
		fx.ctx.Assert(fmt.Sprintf("(< (epoch %s) %s)", v.T, now))
	case SIface:
		fx.ctx.Assert(fmt.Sprintf("(< (epoch (iref %s)) %s)", v.T, now))
	case SSlice:
		fx.ctx.Assert(fmt.Sprintf("(< (epoch (sbase %s)) %s)", v.T, now))
	}
}

func shortName(key string) string {
	if i := strings.LastIndex(key, "."); i >= 0 {
		return key[i+1:]
	}
	return key
}

// ---------- builtins ----------

func (a *act) builtin(b *ssa.Builtin, c *ssa.CallCommon, args []Val, guard string, st *State, pos token.Pos, in *ssa.Call) Val {
	fx := a.fx
	e := fx.eng
	switch b.Name() {
	case "len":
		x := args[0]
		switch {
		case x.S == SSlice:
			return Val{T: App("slen", x.T), S: SInt, GT: types.Typ[types.Int]}
		case x.S == SStr:
			return Val{T: App("strlen", x.T), S: SInt, GT: types.Typ[types.Int]}
		}
		if mt, ok := c.Args[0].Type().Underlying().(*types.Map); ok {
			_, _, ln := a.mapHeaps(mt)
			h := fx.sv(st, ln, ArrS(SRef, SInt))
			t := Ite(Eq(x.T, "null"), "0", Sel(h, x.T))
			fx.ctx.Assert(fmt.Sprintf("(>= %s 0)", t))
			return Val{T: t, S: SInt, GT: types.Typ[types.Int]}
		}
		if at, ok := c.Args[0].Type().Underlying().(*types.Array); ok {
			return Val{T: fmt.Sprint(at.Len()), S: SInt}
		}
		unsupportedf("len of %s", c.Args[0].Type())
	case "cap":
		x := args[0]
		cp := fx.ctx.Fresh("cap", SInt)
		fx.ctx.Assert(fmt.Sprintf("(>= %s (slen %s))", cp, x.T))
		return Val{T: cp, S: SInt}
	case "append":
		s, t := args[0], args[1]
		st0 := c.Args[0].Type().Underlying().(*types.Slice)
		et := st0.Elem()
		if t.S == SStr {
			unsupportedf("append of string to []byte")
		}
		es := e.SortOf(et)
		hs := ArrS(SRef, ArrS(SInt, es))
		hn := "Elem!" + typeName(et)
		h := fx.sv(st, hn, hs)
		r := fx.alloc(st, "append")
		na := fx.ctx.Fresh("appended", ArrS(SInt, es))
		ls, lt := App("slen", s.T), App("slen", t.T)
		// the new heap and the result slice first, so that the axioms below can speak about result[i] directly:
		// instantiating them from the source side then creates the term result[i] that existential goals need as a witness
		fx.setSV(st, hn, hs, Store(fx.sv(st, hn, hs), r, na))
		h2 := fx.sv(st, hn, hs)
		resT := fmt.Sprintf("(mk-slice %s 0 (+ %s %s))", r, ls, lt)
		res := fx.ctx.Fresh("appendres", SSlice)
		fx.ctx.Assert(Eq(res, resT))
		fx.ctx.Assert(Eq(Sel(h2, r), na))
		// written exactly as element reads are written, (select (select heap (sbase s)) (sidx s i)), so that E-matching
		// does not depend on the datatype theory having merged (sbase res) with the fresh array first
		elemR := func(idx string) string { return Sel(Sel(h2, App("sbase", res)), App("sidx", res, idx)) }
		fx.ctx.Assert(fmt.Sprintf("(forall ((i Int)) (! (=> (and (<= 0 i) (< i %s)) (= %s (select (select %s (sbase %s)) (sidx %s i)))) :pattern (%s) :pattern ((select (select %s (sbase %s)) (sidx %s i)))))", ls, elemR("i"), h, s.T, s.T, elemR("i"), h, s.T, s.T))
		fx.ctx.Assert(fmt.Sprintf("(forall ((i Int)) (! (=> (and (<= 0 i) (< i %s)) (= (select %s i) (select (select %s (sbase %s)) (sidx %s i)))) :pattern ((select %s i))))", ls, na, h, s.T, s.T, na))
		fx.ctx.Assert(fmt.Sprintf("(forall ((j Int)) (! (=> (and (<= %s j) (< j (+ %s %s))) (= (select %s j) (select (select %s (sbase %s)) (sidx %s (- j %s))))) :pattern ((select %s j))))", ls, ls, lt, na, h, t.T, t.T, ls, na))
		// (no source-side trigger for the shifted part in general: together with the result-side trigger it would ping-pong
		// forever; with a slice literal in front the shift is a numeral and both solvers normalise (j + k) - k back to j)
		if s.CLen > 0 && s.CLen <= 5 {
			// the elements of the literal prefix, as ground facts (witnesses for "the new element is in the result")
			for i := 0; i < s.CLen-1; i++ {
				fx.ctx.Assert(Eq(elemR(fmt.Sprint(i)), Sel(Sel(h, App("sbase", s.T)), App("sidx", s.T, fmt.Sprint(i)))))
			}
		}
		if s.CLen > 0 {
			k := fmt.Sprint(s.CLen - 1)
			fx.ctx.Assert(fmt.Sprintf("(forall ((j Int)) (! (=> (and (<= 0 j) (< j %s)) (= %s (select (select %s (sbase %s)) (sidx %s j)))) :pattern ((select (select %s (sbase %s)) (sidx %s j)))))",
				lt, elemR("(+ j "+k+")"), h, t.T, t.T, h, t.T, t.T))
		}
		// common case: one appended element
		fx.ctx.Assert(Imp(Eq(lt, "1"), Eq(Sel(na, ls), Sel(Sel(h, App("sbase", t.T)), App("soff", t.T)))))
		// ... stated over result[len(s)] as well: the ground term is the witness for "the appended element is in the result"
		fx.ctx.Assert(Imp(Eq(lt, "1"), Eq(elemR(ls), Sel(Sel(h, App("sbase", t.T)), App("soff", t.T)))))
		fx.eng.assume("append always copies into a fresh backing array (no writes into spare capacity of a shared array)")
		return Val{T: res, S: SSlice, GT: c.Args[0].Type()}
	case "copy":
		d, s := args[0], args[1]
		et := c.Args[0].Type().Underlying().(*types.Slice).Elem()
		if s.S == SStr {
			unsupportedf("copy from string")
		}
		es := e.SortOf(et)
		hs := ArrS(SRef, ArrS(SInt, es))
		hn := "Elem!" + typeName(et)
		h := fx.sv(st, hn, hs)
		n := App("min!", App("slen", d.T), App("slen", s.T))
		na := fx.ctx.Fresh("copied", ArrS(SInt, es))
		da := Sel(h, App("sbase", d.T))
		fx.ctx.Assert(fmt.Sprintf("(forall ((i Int)) (! (= (select %s i) (ite (and (<= (soff %s) i) (< i (+ (soff %s) %s))) (select (select %s (sbase %s)) (+ (soff %s) (- i (soff %s)))) (select %s i))) :pattern ((select %s i))))",
			na, d.T, d.T, n, h, s.T, s.T, d.T, da, na))
		fx.setSV(st, hn, hs, Store(h, App("sbase", d.T), na))
		return Val{T: n, S: SInt, GT: types.Typ[types.Int]}
	case "delete":
		m, k := args[0], args[1]
		mt := c.Args[0].Type().Underlying().(*types.Map)
		has, _, ln := a.mapHeaps(mt)
		ks := e.SortOf(mt.Key())
		hS, lS := ArrS(SRef, ArrS(ks, SBool)), ArrS(SRef, SInt)
		h := fx.sv(st, has, hS)
		l := fx.sv(st, ln, lS)
		fx.setSV(st, ln, lS, Store(l, m.T, Ite(Sel(Sel(h, m.T), k.T), fmt.Sprintf("(- %s 1)", Sel(l, m.T)), Sel(l, m.T))))
		fx.setSV(st, has, hS, Store(h, m.T, Store(Sel(h, m.T), k.T, "false")))
		return Val{S: "Tuple"}
	case "close":
		ch := args[0]
		cs := ArrS(SRef, SBool)
		cl := fx.sv(st, "ChanClosed", cs)
		what := e.srcText(pos, nil)
		fx.addObl("chan", a.prefix()+"close "+what, guard, And(Not(Eq(ch.T, "null")), Not(Sel(cl, ch.T))), pos, "close of nil or closed channel")
		fx.setSV(st, "ChanClosed", cs, Store(cl, ch.T, "true"))
		return Val{S: "Tuple"}
	case "print", "println":
		return Val{S: "Tuple"}
	case "min", "max":
		f := "min!"
		if b.Name() == "max" {
			f = "max!"
		}
		t := args[0].T
		for _, x := range args[1:] {
			t = App(f, t, x.T)
		}
		return Val{T: t, S: SInt, GT: c.Args[0].Type()}
	case "ssa:wrapnilchk":
		// receiver of a promoted / wrapped method: the value itself, which must not be nil
		if args[0].S == SRef {
			a.nilObl(args[0], guard, pos, "wrapped method receiver")
		}
		return args[0]
	}
	unsupportedf("builtin %s", b.Name())
	return Val{}
}

// havocItems gives the listed locations arbitrary new contents (objects that are not listed and existed before keep theirs).
func (fx *FX) havocItems(items []modItem, pre *State, st *State, guard string) {
	byHeap := map[string][]modItem{}
	var heaps []string
	for _, it := range items {
		if _, ok := byHeap[it.heap]; !ok {
			heaps = append(heaps, it.heap)
		}
		byHeap[it.heap] = append(byHeap[it.heap], it)
	}
	nowBefore := fx.now(pre)
	for _, h := range heaps {
		its := byHeap[h]
		srt := its[0].sort
		oldT := fx.sv(pre, h, srt)
		newT := fx.havocSV(st, h, srt)
		whole := false
		var excl []string
		for _, it := range its {
			if it.obj == "" {
				whole = true
			}
			excl = append(excl, Not(Eq("o", it.obj)))
		}
		if whole {
			continue
		}
		k, _, isArr := splitArr(srt)
		if !isArr {
			continue
		}
		fx.ctx.Assert(Imp(guard, fmt.Sprintf("(forall ((o %s)) (! (=> %s (= (select %s o) (select %s o))) :pattern ((select %s o))))", k, And(excl...), newT, oldT, newT)))
	}
	n := fx.havocSV(st, "$now", SInt)
	fx.ctx.Assert(fmt.Sprintf("(>= %s %s)", n, nowBefore))
	for _, h := range heaps {
		fx.heapAllocFacts(byHeap[h][0].sort, fx.sv(st, h, byHeap[h][0].sort), fx.now(st), "true")
	}
}

// goStmt: only the fork-join pattern handled by flag "forkjoin" is supported (see DESIGN).
func (a *act) goStmt(in *ssa.Go, guard string, st *State) {
	fx := a.fx
	c := in.Common()
	fnv := a.val(c.Value, st)
	if fnv.Fn == nil {
		unsupportedf("go statement with dynamic target")
	}
	mode := ""
	if fx.spec != nil {
		mode = fx.spec.Flags["go"]
	}
	var args []Val
	for _, x := range c.Args {
		args = append(args, a.val(x, st))
	}
	switch mode {
	case "forkjoin":
		// The spawned body runs to completion before the parent passes wg.Wait(); the parent holds its locks meanwhile.
		// Its effects are applied here (at the spawn) for an arbitrary interleaving-independent summary: the body is
		// executed on the current state. Soundness needs the bodies to be race-free with each other, which is the
		// obligation "race:" emitted for every write to a captured cell that is not protected.
		fx.eng.assume("fork-join rule: goroutines spawned in " + fx.key + " complete before wg.Wait() returns (sync.WaitGroup contract)")
		fx.inGo++
		full := append(append([]Val{}, fnv.Bind...), args...)
		a.callStatic(fnv.Fn, fnv.Bind, args, full, guard, st, in.Pos(), c.Signature())
		fx.inGo--
	case "monitor":
		// Monitor rule: the spawned body touches the shared state only inside critical sections of the monitor lock, each
		// of which is verified separately against the monitor invariant (assumed at acquisition, proved at release). For
		// the spawning function the statement therefore changes nothing; what it owes the body is the body's precondition,
		// which may only speak about the body's own arguments and about state that no critical section changes.
		fx.eng.assume("monitor rule: goroutines spawned in " + fx.key + " access the shared state only under the monitor lock; their preconditions are established at the spawn and must be stable")
		sp := fx.eng.specs.Funcs[FuncKey(fnv.Fn)]
		if sp == nil {
			unsupportedf("go statement: spawned function %s has no contract", FuncKey(fnv.Fn))
		}
		fx.usedSpec[sp.Key] = true
		qn := 0
		env := &SEnv{vars: map[string]Val{}, qn: &qn, pkg: sp.Pkg, nowOld: fx.now(st)}
		for i, p := range fnv.Fn.Params {
			if i < len(args) {
				v := args[i]
				v.GT = p.Type()
				env.vars[p.Name()] = v
			}
		}
		for i, fv := range fnv.Fn.FreeVars {
			if i < len(fnv.Bind) {
				v := fnv.Bind[i]
				v.GT = fv.Type()
				env.vars[fv.Name()] = v
			}
		}
		for _, r := range sp.Requires {
			t := fx.specTerm(r.X, env, st, st, sp.Pkg)
			name := r.Name
			if name == "" {
				name = normSpace(r.Text)
			}
			fx.addObl("pre", a.prefix()+"pre@go "+sp.Key+":"+name, guard, t, in.Pos(), "precondition of the spawned function")
		}
	default:
		unsupportedf("go statement (no concurrency rule selected)")
	}
}

// havocArg: the i-th argument is an interface holding a pointer to a struct; all fields of that object become arbitrary.
func (a *act) havocArg(idx string, args []Val, st *State, guard, nowBefore string) {
	fx := a.fx
	e := fx.eng
	i := 0
	fmt.Sscanf(idx, "%d", &i)
	if i >= len(args) {
		return
	}
	v := args[i]
	var pt types.Type = v.Dyn
	obj := App("iref", v.T)
	if v.S == SRef {
		pt, obj = v.GT, v.T
	}
	if pt == nil {
		unsupportedf("havocarg: dynamic type of the argument is not statically known")
	}
	stT := derefType(pt)
	su, ok := stT.Underlying().(*types.Struct)
	if !ok {
		unsupportedf("havocarg: %s is not a pointer to struct", pt)
	}
	for k := 0; k < su.NumFields(); k++ {
		ft := su.Field(k).Type()
		if _, isS := ft.Underlying().(*types.Struct); isS && !isCid(ft) {
			continue
		}
		if _, isA := ft.Underlying().(*types.Array); isA {
			continue
		}
		hn := fieldHeap(stT, k)
		hs := ArrS(SRef, e.SortOf(ft))
		oldT := fx.sv(st, hn, hs)
		newT := fx.havocSV(st, hn, hs)
		fx.ctx.Assert(Imp(guard, fmt.Sprintf("(forall ((o Ref)) (! (=> (not (= o %s)) (= (select %s o) (select %s o))) :pattern ((select %s o))))", obj, newT, oldT, newT)))
	}
	e.assume("library decoders fill their target struct with arbitrary values of the declared field types (any pointer may be nil)")
}

// checkCallSpec runs a statically known function argument once (zero-argument callspecs only) and checks the ensures.
func (a *act) checkCallSpec(sp *FuncSpec, cs *CallSpec, pname string, fv Val, guard string, pre *State, pos token.Pos) {
	fx := a.fx
	sig := fv.Fn.Signature
	if sig.Params().Len() != 0 {
		fx.eng.assume("callspec of " + sp.Key + ":" + pname + " is assumed (arguments are not enumerated)")
		return
	}
	cl := pre.clone()
	nb := fx.now(cl)
	full := append([]Val{}, fv.Bind...)
	out := a.callStatic(fv.Fn, fv.Bind, nil, full, guard, cl, pos, sig)
	env := a.callEnv(nil, sig, nil, out)
	env.pkg = sp.Pkg
	env.nowOld = nb
	for _, en := range cs.Ensures {
		t := fx.specTerm(en.X, env, cl, cl, sp.Pkg)
		fx.addObl("callspec@"+sp.Key+":"+pname, a.prefix()+normSpace(en.Text), guard, t, pos, "function argument must satisfy the callee's callspec")
	}
}

// freshLocal: the SSA value denotes an object allocated by this activation (syntactically).
func freshLocal(v ssa.Value, depth int) bool {
	if depth > 6 {
		return false
	}
	switch x := v.(type) {
	case *ssa.Alloc, *ssa.MakeSlice, *ssa.MakeMap:
		return true
	case *ssa.Slice:
		return freshLocal(x.X, depth+1)
	case *ssa.Call:
		if b, ok := x.Call.Value.(*ssa.Builtin); ok && b.Name() == "append" {
			return true
		}
	case *ssa.Phi:
		for _, e := range x.Edges {
			if c, ok := e.(*ssa.Const); ok && c.Value == nil {
				continue
			}
			if !freshLocal(e, depth+1) {
				return false
			}
		}
		return true
	case *ssa.Convert:
		_, isSlice := x.Type().Underlying().(*types.Slice)
		return isSlice
	}
	return false
}

// defaultLoopFrames: heaps that the loop only writes at objects allocated by this function keep, at every object
// that existed at function entry, their loop-entry contents. Assumed at the head and re-proved at each back edge.
func (a *act) defaultLoopFrames(li *loopInfo, st *State) []string {
	fx := a.fx
	e := fx.eng
	ok := map[string]bool{}
	bad := map[string]bool{}
	for b := range li.blocks {
		for _, in := range b.Instrs {
			switch x := in.(type) {
			case *ssa.Store:
				elem := derefType(x.Addr.Type())
				switch ad := x.Addr.(type) {
				case *ssa.IndexAddr:
					name := "Elem!" + typeName(elem)
					if freshLocal(ad.X, 0) {
						ok[name] = true
					} else {
						bad[name] = true
					}
				case *ssa.FieldAddr:
					name := fieldHeap(derefType(ad.X.Type()), ad.Field)
					if freshLocal(ad.X, 0) {
						ok[name] = true
					} else {
						bad[name] = true
					}
				case *ssa.Alloc:
					ok["Cell!"+typeName(elem)] = true
				default:
					if _, isS := elem.Underlying().(*types.Struct); !isS || isCid(elem) {
						bad["Cell!"+typeName(elem)] = true
					}
				}
			case *ssa.Send:
				et := x.Chan.Type().Underlying().(*types.Chan).Elem()
				bad["ChanSent!"+typeName(et)], bad["ChanLen"], bad["ChanClosed"] = true, true, true
			case *ssa.MapUpdate:
				mt := x.Map.Type().Underlying().(*types.Map)
				has, val, ln := a.mapHeaps(mt)
				for _, n := range []string{has, val, ln} {
					if freshLocal(x.Map, 0) {
						ok[n] = true
					} else {
						bad[n] = true
					}
				}
			case ssa.CallInstruction:
				c := x.Common()
				if bi, isB := c.Value.(*ssa.Builtin); isB {
					switch bi.Name() {
					case "append":
						et := c.Args[0].Type().Underlying().(*types.Slice).Elem()
						ok["Elem!"+typeName(et)] = true
					case "copy":
						et := c.Args[0].Type().Underlying().(*types.Slice).Elem()
						if freshLocal(c.Args[0], 0) {
							ok["Elem!"+typeName(et)] = true
						} else {
							bad["Elem!"+typeName(et)] = true
						}
					case "delete":
						mt := c.Args[0].Type().Underlying().(*types.Map)
						has, _, ln := a.mapHeaps(mt)
						bad[has], bad[ln] = true, true
					}
					continue
				}
				cw, all := a.callWrites(c)
				if all {
					return nil
				}
				for k := range cw {
					bad[k] = true
				}
			case *ssa.Alloc:
				// zero-initialisation of a fresh object
			}
		}
	}
	_ = e
	var out []string
	writes, _ := a.loopWrites(li)
	for _, name := range sortedKeys(writes) {
		if strings.HasPrefix(name, "$") || bad[name] {
			continue
		}
		srt := writes[name]
		k, _, isArr := splitArr(srt)
		if !isArr || k != SRef {
			continue
		}
		out = append(out, fmt.Sprintf("(forall ((o Ref)) (! (=> (< (epoch o) %s) (= (select %s o) (select %s o))) :pattern ((select %s o))))",
			fx.nowEntry, fx.sv(st, name, srt), fx.sv(li.entryState, name, srt), fx.sv(st, name, srt)))
	}
	return out
}
