package main

import (
	"strconv"
	"fmt"
	"go/ast"
	"os"
	"go/token"
	"go/types"
	"strings"

	"golang.org/x/tools/go/ssa"
)

// SEnv is the environment for evaluating a spec expression.
type SEnv struct {
	vars   map[string]Val
	act    *act             // for local variables (loop invariants), may be nil
	header *ssa.BasicBlock  // loop header for local resolution
	pkg    string           // package path for type names
	nowOld string           // value of $now in the old state (for fresh())
	qn     *int
	depth  int // number of enclosing bound variables: bound names are derived from it, so that equal formulas are equal terms
	funs   map[string]FunDecl // witness functions: spec name -> declared symbol (Name = SMT symbol)
	bound  map[string]bool    // quantified variables in scope (they shadow program variables)
	atInstr ssa.Instruction   // program point of an assert hint (values defined earlier in the same block are visible)
}

func (env *SEnv) with(name string, v Val) *SEnv {
	n := &SEnv{vars: map[string]Val{}, act: env.act, header: env.header, pkg: env.pkg, nowOld: env.nowOld, qn: env.qn, depth: env.depth, funs: env.funs, bound: map[string]bool{}, atInstr: env.atInstr}
	for k, x := range env.vars {
		n.vars[k] = x
	}
	for k := range env.bound {
		n.bound[k] = true
	}
	n.vars[name] = v
	n.bound[name] = true
	return n
}

type specError struct{ msg string }

func (s specError) Error() string { return s.msg }

func specErrf(format string, a ...any) { panic(specError{fmt.Sprintf(format, a...)}) }

// specTerm evaluates a boolean spec expression.
func (fx *FX) specTerm(x *SX, env *SEnv, cur, old *State, pkg string) string {
	if env.pkg == "" {
		env.pkg = pkg
	}
	v := fx.specVal(x, env, cur, old)
	if v.S != SBool {
		specErrf("spec expression %s is not boolean (sort %s)", x, v.S)
	}
	return v.T
}

// resolveType maps a type text of the spec language to a sort and (optionally) a Go type.
func (e *Engine) resolveType(text, pkg string) (Sort, types.Type) {
	text = strings.TrimSpace(text)
	switch text {
	case "int":
		return SInt, types.Typ[types.Int]
	case "bool":
		return SBool, types.Typ[types.Bool]
	case "string", "str":
		return SStr, types.Typ[types.String]
	case "ref":
		return SRef, nil
	case "bytes":
		return SBytes, nil
	case "cid":
		return SCid, nil
	case "slice":
		return SSlice, nil
	case "iface":
		return SIface, nil
	case "fn":
		return SFn, nil
	case "uint64":
		return SInt, types.Typ[types.Uint64]
	case "[]byte":
		return SSlice, types.NewSlice(types.Typ[types.Byte])
	case "[]string":
		return SSlice, types.NewSlice(types.Typ[types.String])
	}
	if strings.HasPrefix(text, "(") {
		return Sort(text), nil
	}
	for _, q := range e.specs.Sorts {
		if q == text {
			return Sort(text), nil
		}
	}
	t := e.goType(text, pkg)
	return e.SortOf(t), t
}

func (e *Engine) goType(text, pkg string) types.Type {
	switch {
	case strings.HasPrefix(text, "*"):
		return types.NewPointer(e.goType(text[1:], pkg))
	case strings.HasPrefix(text, "[]"):
		return types.NewSlice(e.goType(text[2:], pkg))
	case strings.HasPrefix(text, "map["):
		j := matchBracket(text, 3)
		return types.NewMap(e.goType(text[4:j], pkg), e.goType(text[j+1:], pkg))
	}
	switch text {
	case "int":
		return types.Typ[types.Int]
	case "string":
		return types.Typ[types.String]
	case "bool":
		return types.Typ[types.Bool]
	case "byte":
		return types.Typ[types.Byte]
	case "uint64":
		return types.Typ[types.Uint64]
	case "uint":
		return types.Typ[types.Uint]
	case "error":
		return types.Universe.Lookup("error").Type()
	case "interface{}", "interface {}", "any":
		return types.NewInterfaceType(nil, nil)
	}
	pname, tname := "", text
	if i := strings.LastIndex(text, "."); i >= 0 {
		pname, tname = text[:i], text[i+1:]
	}
	var scope *types.Scope
	if pname == "" {
		pp := e.prog.AllPkgs[pkg]
		if pp == nil {
			specErrf("unknown package %s for type %s", pkg, text)
		}
		scope = pp.Types.Scope()
	} else {
		// module packages first (by package name or relative path), then imports of pkg, then anything loaded
		for path, pp := range e.prog.AllPkgs {
			if isModulePkg(path) && (pp.Name == pname || shortPkg(path) == pname) {
				scope = pp.Types.Scope()
			}
		}
		if scope == nil {
			if pp := e.prog.AllPkgs[pkg]; pp != nil {
				for _, imp := range pp.Imports {
					if imp.Name == pname || imp.PkgPath == pname {
						scope = imp.Types.Scope()
					}
				}
			}
		}
		if scope == nil {
			for path, pp := range e.prog.AllPkgs {
				if pp.Name == pname || path == pname {
					scope = pp.Types.Scope()
				}
			}
		}
	}
	if scope == nil {
		specErrf("cannot resolve package of type %s", text)
	}
	obj := scope.Lookup(tname)
	tn, ok := obj.(*types.TypeName)
	if !ok {
		specErrf("cannot resolve type %s in %s", text, pkg)
	}
	return tn.Type()
}

func matchBracket(s string, i int) int {
	d := 0
	for j := i; j < len(s); j++ {
		switch s[j] {
		case '[':
			d++
		case ']':
			d--
			if d == 0 {
				return j
			}
		}
	}
	return -1
}

func nilOf(s Sort) string {
	switch s {
	case SRef:
		return "null"
	case SIface:
		return "nil!iface"
	case SSlice:
		return "nil!slice"
	case SFn:
		return "fn!nil"
	}
	specErrf("nil of sort %s", s)
	return ""
}

func isNilTest(v Val) string {
	switch v.S {
	case SRef:
		return Eq(v.T, "null")
	case SIface:
		return Eq(App("itag", v.T), "0")
	case SSlice:
		return Eq(App("sbase", v.T), "null")
	case SFn:
		return Eq(v.T, "fn!nil")
	}
	specErrf("nil comparison on sort %s", v.S)
	return ""
}

// structOf returns the struct type reachable from a value for field selection, and the object reference term.
func (fx *FX) structOf(v Val) (types.Type, string, bool) {
	if v.GT == nil {
		return nil, "", false
	}
	t := types.Unalias(v.GT)
	if p, ok := t.Underlying().(*types.Pointer); ok {
		if _, ok := p.Elem().Underlying().(*types.Struct); ok {
			return p.Elem(), v.T, true
		}
	}
	if _, ok := t.Underlying().(*types.Interface); ok && fx.eng.isClosedIface(t) {
		impls := fx.eng.implementers(t)
		if len(impls) == 1 {
			if p, ok := impls[0].Underlying().(*types.Pointer); ok {
				if _, ok := p.Elem().Underlying().(*types.Struct); ok {
					return p.Elem(), App("iref", v.T), true
				}
			}
		}
	}
	return nil, "", false
}

func (fx *FX) specVal(x *SX, env *SEnv, cur, old *State) Val {
	e := fx.eng
	switch x.K {
	case "int":
		return Val{T: IntLit(x.Int), S: SInt, GT: types.Typ[types.Int]}
	case "str":
		return Val{T: fx.ctx.StrLit(x.Str), S: SStr, GT: types.Typ[types.String]}
	case "bool":
		return Val{T: x.Name, S: SBool}
	case "nil":
		return Val{T: "nil", S: "Nil"}
	case "id":
		if env.bound[x.Name] {
			return env.vars[x.Name]
		}
		if env.act != nil && env.header != nil {
			// inside a loop invariant a (possibly reassigned) parameter denotes its current value
			env.act.hintPoint = env.atInstr
			v, ok := env.act.localVar(x.Name, env.header, cur)
			env.act.hintPoint = nil
			if ok {
				return v
			}
		}
		if v, ok := env.vars[x.Name]; ok {
			return v
		}
		if env.act != nil {
			if v, ok := env.act.localVar(x.Name, env.header, cur); ok {
				return v
			}
		}
		if s, ok := e.ghostSort[x.Name]; ok {
			return Val{T: fx.sv(cur, x.Name, s), S: s}
		}
		if f, ok := e.funSigs[x.Name]; ok && len(f.Args) == 0 {
			return Val{T: x.Name, S: Sort(f.Ret)}
		}
		if d, ok := e.specs.Defines[x.Name]; ok && len(d.Params) == 0 {
			return fx.specVal(d.Body, &SEnv{vars: map[string]Val{}, pkg: d.Pkg, nowOld: env.nowOld, qn: env.qn, depth: env.depth}, cur, old)
		}
		if x.Name == "cidUndef" {
			return Val{T: "cid!undef", S: SCid}
		}
		if x.Name == "$now" {
			return Val{T: fx.now(cur), S: SInt}
		}
		specErrf("unknown identifier %q", x.Name)
	case "un":
		v := fx.specVal(x.A[0], env, cur, old)
		if x.Name == "!" {
			return Val{T: Not(v.T), S: SBool}
		}
		return Val{T: "(- " + v.T + ")", S: SInt}
	case "bin":
		return fx.specBin(x, env, cur, old)
	case "quant":
		nenv := env
		var decls []string
		var facts []string
		for vi, vd := range x.Vars {
			srt, gt := e.resolveType(vd.Type, env.pkg)
			*env.qn++
			// named after the nesting depth: distinct from every enclosing binder, and identical for two evaluations of
			// the same formula (the solvers then see one term, not two alpha-equivalent ones)
			name := fmt.Sprintf("%s!b%d", vd.Name, env.depth+vi)
			nenv = nenv.with(vd.Name, Val{T: name, S: srt, GT: gt})
			nenv.depth = env.depth + vi + 1
			decls = append(decls, fmt.Sprintf("(%s %s)", name, srt))
			if gt != nil {
				if ii, ok := intKind(gt); ok && vd.Type != "int" {
					facts = append(facts, ii.rangeFact(name))
				}
			}
		}
		body := fx.specVal(x.A[0], nenv, cur, old)
		if body.S != SBool {
			specErrf("quantifier body not boolean: %s", x)
		}
		bt := body.T
		if x.Name == "forall" {
			bt = Imp(And(facts...), bt)
			if len(x.Trig) > 0 {
				var pats strings.Builder
				for _, grp := range x.Trig {
					pats.WriteString(" :pattern (")
					for i, t := range grp {
						if i > 0 {
							pats.WriteByte(' ')
						}
						pats.WriteString(fx.specVal(t, nenv, cur, old).T)
					}
					pats.WriteString(")")
				}
				bt = fmt.Sprintf("(! %s%s)", bt, pats.String())
			} else if ap := autoPattern(bt, x.Vars, env.depth); ap != "" {
				bt = fmt.Sprintf("(! %s :autopattern (%s))", bt, ap)
			}
			return Val{T: fmt.Sprintf("(forall (%s) %s)", strings.Join(decls, " "), bt), S: SBool}
		}
		bt = And(append(facts, bt)...)
		return Val{T: fmt.Sprintf("(exists (%s) %s)", strings.Join(decls, " "), bt), S: SBool}
	case "cast":
		v := fx.specVal(x.A[0], env, cur, old)
		srt, gt := e.resolveType(x.Name, env.pkg)
		if v.S == SIface && srt == SIface {
			v.GT = gt
			return v
		}
		if v.S == SIface {
			if srt == SRef {
				return Val{T: App("iref", v.T), S: SRef, GT: gt}
			}
			_, u := fx.boxFn(srt)
			return Val{T: App(u, App("iref", v.T)), S: srt, GT: gt}
		}
		v.GT = gt
		return v
	case "sel":
		base := fx.specVal(x.A[0], env, cur, old)
		if stT, obj, ok := fx.structOf(base); ok {
			su := stT.Underlying().(*types.Struct)
			for i := 0; i < su.NumFields(); i++ {
				f := su.Field(i)
				if f.Name() != x.Name {
					continue
				}
				if _, isStruct := f.Type().Underlying().(*types.Struct); isStruct && !isCid(f.Type()) {
					return Val{T: fmt.Sprintf("(sub %s %d)", obj, i), S: SRef, GT: types.NewPointer(f.Type())}
				}
				srt := e.SortOf(f.Type())
				h := fx.sv(cur, fieldHeap(stT, i), ArrS(SRef, srt))
				return Val{T: Sel(h, obj), S: srt, GT: f.Type(), Loc: &Loc{Heap: fieldHeap(stT, i), Obj: obj, GT: f.Type()}}
			}
		}
		// struct value
		if base.GT != nil {
			if su, ok := base.GT.Underlying().(*types.Struct); ok && !isCid(base.GT) {
				for i := 0; i < su.NumFields(); i++ {
					if su.Field(i).Name() == x.Name {
						return Val{T: App(e.structSel(string(base.S), i), base.T), S: e.SortOf(su.Field(i).Type()), GT: su.Field(i).Type()}
					}
				}
			}
		}
		specErrf("cannot select field %s of %s (type %v)", x.Name, x.A[0], base.GT)
	case "idx":
		base := fx.specVal(x.A[0], env, cur, old)
		idx := fx.specVal(x.A[1], env, cur, old)
		if base.S == SSlice {
			var et types.Type
			if base.GT != nil {
				et = base.GT.Underlying().(*types.Slice).Elem()
			} else {
				specErrf("indexing untyped slice %s", x.A[0])
			}
			srt := e.SortOf(et)
			h := fx.sv(cur, "Elem!"+typeName(et), ArrS(SRef, ArrS(SInt, srt)))
			return Val{T: Sel(Sel(h, App("sbase", base.T)), fmt.Sprintf("(sidx %s %s)", base.T, idx.T)), S: srt, GT: et}
		}
		if base.GT != nil {
			if mt, ok := base.GT.Underlying().(*types.Map); ok {
				a := &act{fx: fx}
				_, val, _ := a.mapHeaps(mt)
				ks, vs := e.SortOf(mt.Key()), e.SortOf(mt.Elem())
				h := fx.sv(cur, val, ArrS(SRef, ArrS(ks, vs)))
				return Val{T: Sel(Sel(h, base.T), idx.T), S: vs, GT: mt.Elem()}
			}
		}
		if _, v, ok := splitArr(base.S); ok {
			return Val{T: Sel(base.T, idx.T), S: v}
		}
		specErrf("cannot index %s of sort %s", x.A[0], base.S)
	case "slice":
		base := fx.specVal(x.A[0], env, cur, old)
		lo, hi := "0", App("slen", base.T)
		if x.A[1] != nil {
			lo = fx.specVal(x.A[1], env, cur, old).T
		}
		if x.A[2] != nil {
			hi = fx.specVal(x.A[2], env, cur, old).T
		}
		st := fmt.Sprintf("(mk-slice (sbase %s) (+ (soff %s) %s) (- %s %s))", base.T, base.T, lo, hi, lo)
		if !boundRe.MatchString(st) && !strings.Contains(st, "ih!") {
			// index translation between the sub-slice and its parent (gives E-matching the parent's index term)
			fx.ctx.Assert(fmt.Sprintf("(forall ((i Int)) (! (= (sidx %s i) (sidx %s (+ %s i))) :pattern ((sidx %s i))))", st, base.T, lo, st))
		}
		return Val{T: st, S: SSlice, GT: base.GT}
	case "call":
		return fx.specCall(x, env, cur, old)
	}
	specErrf("cannot evaluate %s", x)
	return Val{}
}

func (fx *FX) specBin(x *SX, env *SEnv, cur, old *State) Val {
	op := x.Name
	l := fx.specVal(x.A[0], env, cur, old)
	r := fx.specVal(x.A[1], env, cur, old)
	switch op {
	case "&&":
		return Val{T: And(l.T, r.T), S: SBool}
	case "||":
		return Val{T: Or(l.T, r.T), S: SBool}
	case "==>":
		return Val{T: Imp(l.T, r.T), S: SBool}
	case "<==>":
		return Val{T: Eq(l.T, r.T), S: SBool}
	case "==", "!=":
		var t string
		switch {
		case l.S == "Nil" && r.S == "Nil":
			t = "true"
		case l.S == "Nil":
			t = isNilTest(r)
		case r.S == "Nil":
			t = isNilTest(l)
		default:
			if l.S != r.S {
				specErrf("comparison of different sorts %s and %s in %s", l.S, r.S, x)
			}
			t = Eq(l.T, r.T)
		}
		if op == "!=" {
			t = Not(t)
		}
		return Val{T: t, S: SBool}
	case "<", "<=", ">", ">=":
		if !(l.S == SInt && r.S == SInt) && !(l.S == "Real" && r.S == "Real") {
			specErrf("ordered comparison on non-numbers in %s", x)
		}
		return Val{T: fmt.Sprintf("(%s %s %s)", op, l.T, r.T), S: SBool}
	case "+", "-", "*":
		if l.S != SInt || r.S != SInt {
			specErrf("arithmetic on non-integers in %s", x)
		}
		return Val{T: fmt.Sprintf("(%s %s %s)", op, l.T, r.T), S: SInt, GT: types.Typ[types.Int]}
	case "/":
		return Val{T: App("tdiv", l.T, r.T), S: SInt}
	case "%":
		return Val{T: App("tmod", l.T, r.T), S: SInt}
	}
	specErrf("operator %s", op)
	return Val{}
}

func (fx *FX) specCall(x *SX, env *SEnv, cur, old *State) Val {
	e := fx.eng
	callee := x.A[0]
	args := x.A[1:]
	if callee.K == "sel" {
		// method call on a Go value: pure getter evaluation
		recv := fx.specVal(callee.A[0], env, cur, old)
		var avs []Val
		for _, a := range args {
			avs = append(avs, fx.specVal(a, env, cur, old))
		}
		return fx.pureMethod(recv, callee.Name, avs, cur)
	}
	if callee.K != "id" {
		specErrf("cannot call %s", callee)
	}
	name := callee.Name
	ev := func(i int) Val { return fx.specVal(args[i], env, cur, old) }
	switch name {
	case "old":
		return fx.specVal(args[0], env, old, old)
	case "len":
		v := ev(0)
		switch {
		case v.S == SSlice:
			return Val{T: App("slen", v.T), S: SInt, GT: types.Typ[types.Int]}
		case v.S == SStr:
			return Val{T: App("strlen", v.T), S: SInt, GT: types.Typ[types.Int]}
		case v.S == SBytes:
			return Val{T: App("byteslen", v.T), S: SInt}
		case v.GT != nil:
			if mt, ok := v.GT.Underlying().(*types.Map); ok {
				a := &act{fx: fx}
				_, _, ln := a.mapHeaps(mt)
				h := fx.sv(cur, ln, ArrS(SRef, SInt))
				return Val{T: Ite(Eq(v.T, "null"), "0", Sel(h, v.T)), S: SInt}
			}
		}
		specErrf("len of %s", args[0])
	case "has":
		m := ev(0)
		k := ev(1)
		if m.GT != nil {
			if mt, ok := m.GT.Underlying().(*types.Map); ok {
				a := &act{fx: fx}
				has, _, _ := a.mapHeaps(mt)
				ks := e.SortOf(mt.Key())
				h := fx.sv(cur, has, ArrS(SRef, ArrS(ks, SBool)))
				return Val{T: And(Not(Eq(m.T, "null")), Sel(Sel(h, m.T), k.T)), S: SBool}
			}
		}
		if _, v, ok := splitArr(m.S); ok && v == SBool {
			return Val{T: Sel(m.T, k.T), S: SBool}
		}
		specErrf("has() on %s", args[0])
	case "fresh":
		v := ev(0)
		r := v.T
		switch v.S {
		case SIface:
			r = App("iref", v.T)
		case SSlice:
			r = App("sbase", v.T)
		}
		return Val{T: And(Not(Eq(r, "null")), fmt.Sprintf("(>= (epoch %s) %s)", r, env.nowOld)), S: SBool}
	case "allocated":
		v := ev(0)
		r := v.T
		switch v.S {
		case SIface:
			r = App("iref", v.T)
		case SSlice:
			r = App("sbase", v.T)
		}
		return Val{T: fmt.Sprintf("(< (epoch %s) %s)", r, fx.now(cur)), S: SBool}
	case "preexisting":
		v := ev(0)
		r := v.T
		switch v.S {
		case SIface:
			r = App("iref", v.T)
		case SSlice:
			r = App("sbase", v.T)
		}
		return Val{T: fmt.Sprintf("(< (epoch %s) %s)", r, env.nowOld), S: SBool}
	case "off":
		v := ev(0)
		return Val{T: App("soff", v.T), S: SInt}
	case "seq":
		// seq(s): the content of slice s (in the current state) as an abstract sequence
		v := ev(0)
		if v.S != SSlice || v.GT == nil {
			specErrf("seq() needs a typed slice: %s", args[0])
		}
		et := v.GT.Underlying().(*types.Slice).Elem()
		srt := e.SortOf(et)
		q, ok := e.seqSortFor(srt)
		if !ok {
			specErrf("no seqsort declared for element sort %s", srt)
		}
		h := fx.sv(cur, "Elem!"+typeName(et), ArrS(SRef, ArrS(SInt, srt)))
		return Val{T: App("seqOf!"+q.Name, Sel(h, App("sbase", v.T)), v.T), S: Sort(q.Name)}
	case "seqlen", "seqat", "sameseq":
		v := ev(0)
		q, ok := e.seqSortNamed(v.S)
		if !ok {
			specErrf("%s of a non-sequence %s", name, args[0])
		}
		switch name {
		case "seqlen":
			return Val{T: App("seqlen!"+q.Name, v.T), S: SInt, GT: types.Typ[types.Int]}
		case "seqat":
			return Val{T: App("seqat!"+q.Name, v.T, ev(1).T), S: Sort(q.Elem)}
		}
		return Val{T: App("seqext!"+q.Name, v.T, ev(1).T), S: SBool}
	case "applybool":
		// applybool(fn, x): the (deterministic) boolean result of calling a function-typed value, the same term the
		// executor uses for calls through function-typed fields without callspec
		fnv := ev(0)
		var asorts []Sort
		asorts = append(asorts, SFn)
		ats := []string{fnv.T}
		for i := 1; i < len(args); i++ {
			v := ev(i)
			asorts = append(asorts, v.S)
			ats = append(ats, v.T)
		}
		var sn []string
		for _, as := range asorts {
			sn = append(sn, strings.NewReplacer("(", "_", ")", "_", " ", "_").Replace(string(as)))
		}
		f := fx.ctx.DeclareFun(fmt.Sprintf("apply!%s!%d!%s", strings.Join(sn, "."), 0, "Bool"), asorts, SBool)
		return Val{T: App(f, ats...), S: SBool}
	case "keysof", "valsof":
		// content of a Go map as SMT arrays (presence row / value row)
		m := ev(0)
		if m.GT != nil {
			if mt, ok := m.GT.Underlying().(*types.Map); ok {
				a := &act{fx: fx}
				has, val, _ := a.mapHeaps(mt)
				ks := e.SortOf(mt.Key())
				if name == "keysof" {
					h := fx.sv(cur, has, ArrS(SRef, ArrS(ks, SBool)))
					return Val{T: Sel(h, m.T), S: ArrS(ks, SBool)}
				}
				vs := e.SortOf(mt.Elem())
				h := fx.sv(cur, val, ArrS(SRef, ArrS(ks, vs)))
				return Val{T: Sel(h, m.T), S: ArrS(ks, vs)}
			}
		}
		specErrf("%s of a non-map %s", name, args[0])
	case "fzero":
		return Val{T: "0.0", S: "Real"}
	case "deref":
		v := ev(0)
		if v.GT == nil {
			specErrf("deref of untyped value")
		}
		if _, isPtr := v.GT.Underlying().(*types.Pointer); !isPtr {
			specErrf("deref of a value that is not a pointer (%s)", v.GT)
		}
		et := derefType(v.GT)
		srt := e.SortOf(et)
		h := fx.sv(cur, "Cell!"+typeName(et), ArrS(SRef, srt))
		return Val{T: Sel(h, v.T), S: srt, GT: et}
	case "sign", "abs", "min", "max":
		fn := map[string]string{"sign": "sign", "abs": "abs!", "min": "min!", "max": "max!"}[name]
		var ts []string
		for i := range args {
			ts = append(ts, ev(i).T)
		}
		return Val{T: App(fn, ts...), S: SInt, GT: types.Typ[types.Int]}
	case "ite":
		c, a, b := ev(0), ev(1), ev(2)
		return Val{T: Ite(c.T, a.T, b.T), S: a.S, GT: a.GT}
	case "typeis":
		v := ev(0)
		_, gt := e.resolveType(args[1].Str, env.pkg)
		return Val{T: Eq(App("itag", v.T), fx.ctx.Tag(typeName(gt))), S: SBool}
	case "ref":
		v := ev(0)
		switch v.S {
		case SIface:
			return Val{T: App("iref", v.T), S: SRef}
		case SSlice:
			return Val{T: App("sbase", v.T), S: SRef}
		}
		return Val{T: v.T, S: SRef}
	case "bytes":
		v := ev(0)
		if v.S == SSlice {
			return Val{T: App("bytesOf", v.T), S: SBytes}
		}
		if v.S == SStr {
			return Val{T: App("bytes.ofstr", v.T), S: SBytes}
		}
		specErrf("bytes() of %s", args[0])
	case "str":
		v := ev(0)
		switch v.S {
		case SCid:
			return Val{T: App("cid.str", v.T), S: SStr, GT: types.Typ[types.String]}
		case SBytes:
			return Val{T: App("str.ofbytes", v.T), S: SStr, GT: types.Typ[types.String]}
		case SSlice:
			return Val{T: App("str.ofbytes", App("bytesOf", v.T)), S: SStr, GT: types.Typ[types.String]}
		}
		specErrf("str() of %s", args[0])
	case "sent":
		// sent(ch)[i] : ghost history of a channel, sentlen(ch)
		ch := ev(0)
		_, gt := e.resolveType(args[1].Str, env.pkg)
		srt := e.SortOf(gt)
		h := fx.sv(cur, "ChanSent!"+typeName(gt), ArrS(SRef, ArrS(SInt, srt)))
		return Val{T: Sel(h, ch.T), S: ArrS(SInt, srt)}
	case "sentlen":
		ch := ev(0)
		h := fx.sv(cur, "ChanLen", ArrS(SRef, SInt))
		return Val{T: Sel(h, ch.T), S: SInt}
	case "closed":
		ch := ev(0)
		h := fx.sv(cur, "ChanClosed", ArrS(SRef, SBool))
		return Val{T: Sel(h, ch.T), S: SBool}
	case "lockof":
		// lockof(x.lock) : the lock identity of a struct-valued field
		v := ev(0)
		return Val{T: v.T, S: SRef}
	case "visited":
		n := int(args[0].Int)
		name := fmt.Sprintf("$visited%d", n)
		srt, ok := fx.svSort[name]
		if !ok {
			specErrf("no map range %d", n)
		}
		return Val{T: fx.sv(cur, name, srt), S: srt}
	}
	if f, ok := env.funs[name]; ok {
		var ts []string
		for i := range args {
			ts = append(ts, ev(i).T)
		}
		return Val{T: App(f.Name, ts...), S: Sort(f.Ret)}
	}
	if d, ok := e.specs.Defines[name]; ok {
		if len(d.Params) != len(args) {
			specErrf("define %s expects %d arguments", name, len(d.Params))
		}
		nenv := &SEnv{vars: map[string]Val{}, pkg: d.Pkg, nowOld: env.nowOld, qn: env.qn, depth: env.depth, act: nil}
		for i, p := range d.Params {
			v := ev(i)
			srt, gt := e.resolveType(p.Type, d.Pkg)
			if v.S == "Nil" {
				v = Val{T: nilOf(srt), S: srt}
			}
			if v.S == SRef && srt == SIface && v.GT != nil {
				// implicit conversion of a pointer to the interface it is passed as (as Go does at a call)
				if pt, isPtr := v.GT.Underlying().(*types.Pointer); isPtr {
					if _, isStruct := pt.Elem().Underlying().(*types.Struct); isStruct {
						v = Val{T: fmt.Sprintf("(mk-iface %s %s)", fx.ctx.Tag(typeName(v.GT)), v.T), S: SIface}
					}
				}
			}
			if v.S != srt {
				specErrf("define %s: argument %d has sort %s, want %s", name, i, v.S, srt)
			}
			if gt != nil {
				v.GT = gt
			}
			nenv.vars[p.Name] = v
		}
		return fx.specVal(d.Body, nenv, cur, old)
	}
	if f, ok := e.funSigs[name]; ok {
		var ts []string
		for i := range args {
			v := ev(i)
			if v.S == "Nil" {
				v = Val{T: nilOf(Sort(f.Args[i])), S: Sort(f.Args[i])}
			}
			if i < len(f.Args) && string(v.S) != f.Args[i] {
				specErrf("fun %s: argument %d has sort %s, want %s", name, i, v.S, f.Args[i])
			}
			ts = append(ts, v.T)
		}
		return Val{T: App(name, ts...), S: Sort(f.Ret)}
	}
	specErrf("unknown spec function %s", name)
	return Val{}
}

// pureMethod evaluates a side-effect-free single-block method in a state (used inside specs, also under quantifiers).
func (fx *FX) pureMethod(recv Val, name string, args []Val, st *State) Val {
	e := fx.eng
	if recv.GT == nil {
		specErrf("method %s on untyped value", name)
	}
	t := types.Unalias(recv.GT)
	if _, ok := t.Underlying().(*types.Interface); ok {
		if !e.isClosedIface(t) {
			specErrf("method %s on open interface %s", name, t)
		}
		impls := e.implementers(t)
		if len(impls) != 1 {
			specErrf("method %s on interface %s with %d implementers", name, t, len(impls))
		}
		ct := impls[0]
		if isPointerLike(ct) {
			recv = Val{T: App("iref", recv.T), S: SRef, GT: ct}
		} else {
			_, u := fx.boxFn(e.SortOf(ct))
			recv = Val{T: App(u, App("iref", recv.T)), S: e.SortOf(ct), GT: ct}
		}
		t = ct
	}
	if isCid(t) {
		switch name {
		case "String":
			return Val{T: App("cid.str", recv.T), S: SStr, GT: types.Typ[types.String]}
		case "Defined":
			return Val{T: Not(Eq(recv.T, "cid!undef")), S: SBool}
		}
	}
	ms := types.NewMethodSet(t)
	var sel *types.Selection
	for i := 0; i < ms.Len(); i++ {
		if ms.At(i).Obj().Name() == name {
			sel = ms.At(i)
		}
	}
	if sel == nil {
		specErrf("no method %s on %s", name, t)
	}
	fn := e.prog.Prog.MethodValue(sel)
	if fn == nil || len(fn.Blocks) != 1 {
		specErrf("method %s.%s is not a single-block pure getter", t, name)
	}
	return fx.pureEvalFn(fn, append([]Val{recv}, args...), st, 0)
}

func (fx *FX) pureEvalFn(fn *ssa.Function, args []Val, st *State, depth int) Val {
	if depth > 4 || len(fn.Blocks) != 1 {
		specErrf("pure evaluation of %s not possible", fn)
	}
	a := &act{fx: fx, fn: fn, vals: map[ssa.Value]Val{}}
	for i, p := range fn.Params {
		a.vals[p] = args[i]
	}
	e := fx.eng
	for _, in := range fn.Blocks[0].Instrs {
		switch x := in.(type) {
		case *ssa.DebugRef:
		case *ssa.FieldAddr:
			b := a.val(x.X, st)
			stT := derefType(x.X.Type())
			f := stT.Underlying().(*types.Struct).Field(x.Field)
			a.vals[x] = Val{T: fmt.Sprintf("(sub %s %d)", b.T, x.Field), S: SRef, GT: x.Type(), Loc: &Loc{Heap: fieldHeap(stT, x.Field), Obj: b.T, GT: f.Type()}}
		case *ssa.UnOp:
			b := a.val(x.X, st)
			switch x.Op {
			case token.MUL:
				if b.Loc == nil {
					specErrf("pure evaluation: load through pointer in %s", fn)
				}
				a.vals[x] = Val{T: a.load(b.Loc, st), S: e.SortOf(x.Type()), GT: x.Type()}
			case token.NOT:
				a.vals[x] = Val{T: Not(b.T), S: SBool}
			default:
				specErrf("pure evaluation: unary %s", x.Op)
			}
		case *ssa.BinOp:
			l, r := a.val(x.X, st), a.val(x.Y, st)
			switch x.Op {
			case token.EQL, token.NEQ:
				var t string
				if l.S == SSlice {
					o := l
					if isNilConst(x.X) {
						o = r
					}
					t = Eq(App("sbase", o.T), "null")
				} else {
					t = Eq(l.T, r.T)
				}
				if x.Op == token.NEQ {
					t = Not(t)
				}
				a.vals[x] = Val{T: t, S: SBool}
			case token.LSS, token.LEQ, token.GTR, token.GEQ:
				op := map[token.Token]string{token.LSS: "<", token.LEQ: "<=", token.GTR: ">", token.GEQ: ">="}[x.Op]
				a.vals[x] = Val{T: fmt.Sprintf("(%s %s %s)", op, l.T, r.T), S: SBool}
			default:
				specErrf("pure evaluation: binop %s", x.Op)
			}
		case *ssa.MakeInterface:
			a.vals[x] = a.makeIface(a.val(x.X, st), x.X.Type(), x.Type())
		case *ssa.ChangeType:
			v := a.val(x.X, st)
			v.GT = x.Type()
			a.vals[x] = v
		case *ssa.ChangeInterface:
			v := a.val(x.X, st)
			v.GT = x.Type()
			a.vals[x] = v
		case *ssa.Call:
			c := x.Common()
			if bi, ok := c.Value.(*ssa.Builtin); ok && bi.Name() == "len" {
				v := a.val(c.Args[0], st)
				if v.S == SSlice {
					a.vals[x] = Val{T: App("slen", v.T), S: SInt, GT: x.Type()}
				} else {
					a.vals[x] = Val{T: App("strlen", v.T), S: SInt, GT: x.Type()}
				}
				continue
			}
			if c.IsInvoke() {
				recv := a.val(c.Value, st)
				recv.GT = c.Value.Type()
				var avs []Val
				for _, ar := range c.Args {
					avs = append(avs, a.val(ar, st))
				}
				a.vals[x] = fx.pureMethod(recv, c.Method.Name(), avs, st)
				continue
			}
			callee := c.StaticCallee()
			if callee == nil {
				specErrf("pure evaluation: dynamic call in %s", fn)
			}
			var avs []Val
			for _, ar := range c.Args {
				avs = append(avs, a.val(ar, st))
			}
			a.vals[x] = fx.pureEvalFn(callee, avs, st, depth+1)
		case *ssa.Return:
			if len(x.Results) != 1 {
				specErrf("pure evaluation: %s returns %d values", fn, len(x.Results))
			}
			return a.val(x.Results[0], st)
		default:
			specErrf("pure evaluation: instruction %T in %s", in, fn)
		}
	}
	specErrf("pure evaluation: no return in %s", fn)
	return Val{}
}

// localVar resolves a source-level local variable name at a loop header.
func (a *act) localVar(name string, header *ssa.BasicBlock, st *State) (Val, bool) {
	// $kN / $rN: iteration counter / ranged slice of the enclosing range loop with index N
	if len(name) > 2 && (strings.HasPrefix(name, "$k") || strings.HasPrefix(name, "$r")) {
		if n, err := strconv.Atoi(name[2:]); err == nil {
			for _, li := range a.loops {
				if li.index == n {
					return a.localVar(name[:2], li.header, st)
				}
			}
			specErrf("no loop %d for %s", n, name)
		}
	}
	if header != nil {
		for _, in := range header.Instrs {
			phi, ok := in.(*ssa.Phi)
			if !ok {
				break
			}
			if phi.Comment == name {
				return a.vals[phi], true
			}
			if name == "$k" && phi.Comment == "rangeindex" {
				v := a.vals[phi]
				return Val{T: fmt.Sprintf("(+ %s 1)", v.T), S: SInt, GT: types.Typ[types.Int]}, true
			}
			if name == "$r" && phi.Comment == "rangeindex" {
				// the slice being ranged over: the argument of the len() call bounding the counter
				if ifi, ok := header.Instrs[len(header.Instrs)-1].(*ssa.If); ok {
					if cmp, ok := ifi.Cond.(*ssa.BinOp); ok {
						if call, ok := cmp.Y.(*ssa.Call); ok {
							if b, ok := call.Call.Value.(*ssa.Builtin); ok && b.Name() == "len" {
								rv := a.val(call.Call.Args[0], st)
								rv.GT = call.Call.Args[0].Type()
								return rv, true
							}
						}
					}
				}
			}
		}
	}
	// a local variable that lives in a heap cell (captured by a closure, or address taken): its current content.
	// Not for parameters (their cell is a copy made after entry, and old(...) must see the parameter itself) and not
	// in the entry state (the cell does not exist yet).
	isParam := false
	for _, p := range a.fn.Params {
		if p.Name() == name {
			isParam = true
		}
	}
	for _, b := range a.fn.Blocks {
		if isParam || st == a.fx.entry {
			break
		}
		for _, in := range b.Instrs {
			if al, ok := in.(*ssa.Alloc); ok && al.Comment == name {
				if pv, computed := a.vals[al]; computed {
					pv.GT = al.Type()
					loc := a.cellLoc(pv)
					elem := derefType(al.Type())
					if _, isStruct := elem.Underlying().(*types.Struct); !isStruct {
						return Val{T: a.load(loc, st), S: a.sortOf(elem), GT: elem, Loc: loc}, true
					}
				}
			}
		}
	}
	// Reaching definition at the header: among the SSA values bound to the variable (phis named after it and values
	// recorded by DebugRefs), the one whose definition dominates the header and is dominated by all the others.
	var best ssa.Value
	var bestAddr bool
	type cand struct {
		v    ssa.Value
		addr bool
		blk  *ssa.BasicBlock
		idx  int
	}
	var cands []cand
	seen := map[ssa.Value]bool{}
	var constCand ssa.Value
	add := func(v ssa.Value, addr bool) {
		if seen[v] {
			return
		}
		if _, isConst := v.(*ssa.Const); isConst {
			if constCand == nil {
				constCand = v
			}
			return
		}
		seen[v] = true
		switch x := v.(type) {
		case *ssa.Parameter, *ssa.FreeVar, *ssa.Global, *ssa.Function:
			cands = append(cands, cand{v, addr, a.fn.Blocks[0], -1})
		case ssa.Instruction:
			blk := x.Block()
			idx := 0
			for k, in := range blk.Instrs {
				if in == x {
					idx = k
				}
			}
			cands = append(cands, cand{v, addr, blk, idx})
		}
	}
	for _, b := range a.fn.Blocks {
		for _, in := range b.Instrs {
			switch d := in.(type) {
			case *ssa.Phi:
				if d.Comment == name {
					add(d, false)
				}
			case *ssa.DebugRef:
				obj := d.Object()
				if obj == nil || obj.Name() != name {
					continue
				}
				if vv, isVar := obj.(*types.Var); isVar && !vv.IsField() {
					add(d.X, d.IsAddr)
				}
			}
		}
	}
	// x := rhs / x = rhs: the DebugRef of the defining identifier is emitted before the store (it shows the zero
	// value), so take the value recorded for the right-hand side expression instead.
	if syn := a.fn.Syntax(); syn != nil {
		byExpr := map[ast.Expr]*ssa.DebugRef{}
		for _, b := range a.fn.Blocks {
			for _, in := range b.Instrs {
				if d, ok := in.(*ssa.DebugRef); ok && d.Expr != nil {
					byExpr[d.Expr] = d
				}
			}
		}
		ast.Inspect(syn, func(n ast.Node) bool {
			as, ok := n.(*ast.AssignStmt)
			if !ok || len(as.Lhs) != len(as.Rhs) {
				return true
			}
			for i, lh := range as.Lhs {
				id, ok := lh.(*ast.Ident)
				if !ok || id.Name != name {
					continue
				}
				rhs := as.Rhs[i]
				for {
					if p, ok := rhs.(*ast.ParenExpr); ok {
						rhs = p.X
						continue
					}
					break
				}
				if d, ok := byExpr[rhs]; ok && !d.IsAddr {
					add(d.X, false)
				}
			}
			return true
		})
	}
	for _, c := range cands {
		if header != nil {
			if !(c.blk.Dominates(header)) {
				continue
			}
			if c.blk == header {
				if _, isPhi := c.v.(*ssa.Phi); !isPhi && a.hintPoint == nil {
					continue
				}
			}
		}
		if _, computed := a.vals[c.v]; !computed && !isConstOrParam(c.v) {
			continue
		}
		if best == nil {
			best, bestAddr = c.v, c.addr
			continue
		}
		// is c later than best?
		var bb *ssa.BasicBlock
		bi := -1
		for _, o := range cands {
			if o.v == best {
				bb, bi = o.blk, o.idx
			}
		}
		if (bb != c.blk && bb.Dominates(c.blk)) || (bb == c.blk && c.idx > bi) {
			best, bestAddr = c.v, c.addr
		}
	}
	if best == nil && constCand != nil && len(cands) == 0 {
		best = constCand
	}
	if best == nil {
		// parameters
		for _, p := range a.fn.Params {
			if p.Name() == name {
				return a.vals[p], true
			}
		}
		return Val{}, false
	}
	v := a.val(best, st)
	if os.Getenv("GOVC_DEBUG") != "" {
		fmt.Fprintf(os.Stderr, "localVar %s -> %s (%T) = %s addr=%v\n", name, best.Name(), best, v.T, bestAddr)
	}
	if bestAddr {
		loc := a.cellLoc(v)
		elem := derefType(best.Type())
		return Val{T: a.load(loc, st), S: a.sortOf(elem), GT: elem, Loc: loc}, true
	}
	return v, true
}

func isConstOrParam(v ssa.Value) bool {
	switch v.(type) {
	case *ssa.Const, *ssa.Parameter, *ssa.Global, *ssa.Function:
		return true
	}
	return false
}

// autoPattern proposes a trigger for a contract-level universal quantifier: for every bound variable the smallest
// element read "(select A (sidx S v))" or map-row read "(select (select M r) v)" of the body that mentions it (and no
// variable of an inner quantifier). Empty when some variable has no such term.
func autoPattern(body string, vars []SVarDecl, depth int) string {
	names := make([]string, len(vars))
	for i, vd := range vars {
		names[i] = fmt.Sprintf("%s!b%d", vd.Name, depth+i)
	}
	inner := func(t string) bool {
		// mentions a variable bound deeper than this quantifier, or a nested annotation / binder
		if strings.Contains(t, "(forall ") || strings.Contains(t, "(exists ") || strings.Contains(t, ":autopattern") || strings.Contains(t, ":pattern") {
			return true
		}
		for _, m := range boundRe.FindAllString(t, -1) {
			var d int
			if _, err := fmt.Sscanf(m[2:], "%d", &d); err == nil && m[1] == 'b' && d >= depth+len(vars) {
				return true
			}
			if m[1] == 'l' {
				return true
			}
		}
		return false
	}
	hasVar := func(t, v string) bool {
		for i := 0; ; {
			j := strings.Index(t[i:], v)
			if j < 0 {
				return false
			}
			k := i + j + len(v)
			if k == len(t) || t[k] == ' ' || t[k] == ')' {
				return true
			}
			i = k
		}
	}
	best := map[string]string{}
	// enumerate subterms
	var stack []int
	for i := 0; i < len(body); i++ {
		switch body[i] {
		case '(':
			stack = append(stack, i)
		case ')':
			if len(stack) == 0 {
				return ""
			}
			st := stack[len(stack)-1]
			stack = stack[:len(stack)-1]
			t := body[st : i+1]
			if !strings.HasPrefix(t, "(select ") || len(t) > 600 || inner(t) {
				continue
			}
			for _, v := range names {
				// the variable is the index of this read: "... (sidx S v))" or "... v)"
				if !(strings.HasSuffix(t, " "+v+")") || strings.HasSuffix(t, " "+v+"))")) {
					continue
				}
				if strings.HasSuffix(t, " "+v+"))") && !strings.Contains(t, "(sidx ") {
					continue
				}
				if cur, ok := best[v]; !ok || len(t) < len(cur) {
					best[v] = t
				}
			}
		}
	}
	var parts []string
	seen := map[string]bool{}
	for _, v := range names {
		t, ok := best[v]
		if !ok {
			// covered by a term chosen for another variable?
			covered := false
			for _, u := range best {
				if hasVar(u, v) {
					covered = true
				}
			}
			if !covered {
				return ""
			}
			continue
		}
		if !seen[t] {
			seen[t] = true
			parts = append(parts, t)
		}
	}
	if len(parts) == 0 {
		return ""
	}
	return strings.Join(parts, " ")
}
