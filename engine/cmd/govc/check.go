package main

import (
	"encoding/json"
	"flag"
	"fmt"
	"os"
	"path/filepath"
	"regexp"
	"strconv"
	"strings"
	"time"
)

// CheckCfg is /verif/checks/<id>.json.
type CheckCfg struct {
	Property string      `json:"property"`
	Level    string      `json:"level"`
	Lock     bool        `json:"lock"`
	Timeout  int         `json:"timeout"` // per-obligation solver timeout of the quick tier in seconds (default 10)
	Facets   []string    `json:"facets"` // contract facets ("@name" clauses) active in this check
	Scope    []ScopeItem `json:"scope"`
	Replay   map[string]string `json:"replay"` // obligation glob -> driver
	Explanation string   `json:"explanation"`
	Assumptions []string `json:"assumptions"`
	Bounded  []BoundedCheck `json:"bounded"`
	NotApplicableParts []string `json:"not_applicable_parts"`
}

type ScopeItem struct {
	Func    string            `json:"func"`
	Include []string          `json:"include"`
	Exclude map[string]string `json:"exclude"` // glob -> reason (reported as not proved / out of scope)
	Lock    *bool             `json:"lock"`
	Facets  []string          `json:"facets"` // contract facets for this function only (default: the check's facets)
}

// BoundedCheck: a replay driver run on the unchanged tree as a bounded differential check of the real code (thorough
// tier unless Tier is "quick"). It is a stand-in labelled bounded in the evidence, never counted as proved.
type BoundedCheck struct {
	Name   string `json:"name"`
	Driver string `json:"driver"`
	Bound  string `json:"bound"`
	Tier   string `json:"tier"`
}

type KnownFinding struct {
	Property   string `json:"property"`
	Func       string `json:"func"`
	Obligation string `json:"obligation"` // glob
	What       string `json:"what"`
	InputClass string `json:"input_class"`
	Status     string `json:"status"` // open | fixed
	Commit     string `json:"commit,omitempty"`
}

type Baseline struct {
	Proved map[string][]string `json:"proved"` // func -> obligation names proved on the pinned tree
}

func globMatch(pat, s string) bool {
	if pat == "*" {
		return true
	}
	re := "^" + strings.ReplaceAll(regexp.QuoteMeta(pat), `\*`, ".*") + "$"
	ok, _ := regexp.MatchString(re, s)
	return ok
}

type oblReport struct {
	Func    string  `json:"func"`
	Name    string  `json:"name"`
	Kind    string  `json:"kind"`
	Verdict string  `json:"verdict"`
	Solver  string  `json:"solver,omitempty"`
	Seconds float64 `json:"seconds"`
	Pos     string  `json:"pos,omitempty"`
	Note    string  `json:"note,omitempty"`
}

func cmdCheck(args []string) int {
	fs := flag.NewFlagSet("check", flag.ExitOnError)
	tier := fs.String("tier", "quick", "quick|thorough")
	updateBaseline := fs.Bool("update-baseline", false, "deprecated: no baseline file is used any more")
	_ = updateBaseline
	replayFile := fs.String("replay", "", "re-run a replay file")
	fs.Parse(args)
	if fs.NArg() < 1 {
		fmt.Fprintln(os.Stderr, "usage: govc check [--tier quick|thorough] <property>")
		return 2
	}
	prop := fs.Arg(0)
	if t := os.Getenv("VERIF_TIER"); t == "quick" || t == "thorough" {
		*tier = t
	}
	seed := 0
	if s := os.Getenv("VERIF_SEED"); s != "" {
		seed, _ = strconv.Atoi(s)
	}
	vd := verifDir()
	if *replayFile != "" {
		return rerunReplay(*replayFile)
	}
	t0 := time.Now()
	var cfg CheckCfg
	data, err := os.ReadFile(filepath.Join(vd, "checks", prop+".json"))
	if err != nil {
		fmt.Fprintln(os.Stderr, "no check definition:", err)
		return 2
	}
	if err := json.Unmarshal(data, &cfg); err != nil {
		fmt.Fprintln(os.Stderr, "bad check definition:", err)
		return 2
	}
	var known []KnownFinding
	if d, err := os.ReadFile(filepath.Join(vd, "known_findings.json")); err == nil {
		json.Unmarshal(d, &known)
	}
	setFacets := func(fs []string) string {
		for k := range ActiveFacets {
			delete(ActiveFacets, k)
		}
		for _, f := range fs {
			ActiveFacets[f] = true
		}
		return strings.Join(fs, ",")
	}
	curFacets := setFacets(cfg.Facets)
	p, e := loadAll()
	extraAssumptions := map[string]bool{}
	timeout := 15
	if cfg.Timeout > 0 {
		timeout = cfg.Timeout
	}
	if *tier == "thorough" {
		timeout = 60
	}
	// generate
	var frs []*FuncResult
	frScope := map[*FuncResult]ScopeItem{}
	undecided := []string{}
	for _, sc := range cfg.Scope {
		want := cfg.Facets
		if sc.Facets != nil {
			want = sc.Facets
		}
		if strings.Join(want, ",") != curFacets {
			// a scope item with its own facets: the contracts are parsed again with exactly those facets active
			for a := range e.assumptions {
				extraAssumptions[a] = true
			}
			curFacets = setFacets(want)
			p, e = loadAll()
		}
		fn := p.funcByKey[sc.Func]
		if fn == nil {
			undecided = append(undecided, "contract anchor missing: function "+sc.Func+" not found")
			continue
		}
		lock := cfg.Lock
		if sc.Lock != nil {
			lock = *sc.Lock
		}
		fr := e.VerifyFunc(fn, e.specs.Funcs[sc.Func], lock)
		frs = append(frs, fr)
		frScope[fr] = sc
		if fr.Unsupported != "" {
			undecided = append(undecided, sc.Func+": "+fr.Unsupported)
		}
		if fr.SpecError != "" {
			undecided = append(undecided, sc.Func+": contract does not resolve: "+fr.SpecError)
		}
		for _, u := range fr.Unknown {
			undecided = append(undecided, sc.Func+": call without contract: "+u)
		}
	}
	// every contract key must resolve (anchors)
	for key, sp := range e.specs.Funcs {
		if sp.Trusted || strings.HasPrefix(key, "iface:") {
			continue
		}
		if p.funcByKeyAny(key) == nil {
			undecided = append(undecided, "contract anchor missing: "+key)
		}
	}
	// restrict obligations to scope
	for _, fr := range frs {
		sc := frScope[fr]
		var keep []*Obligation
		for _, o := range fr.Obls {
			in := len(sc.Include) == 0
			for _, pat := range sc.Include {
				if globMatch(pat, o.Name) {
					in = true
				}
			}
			for pat := range sc.Exclude {
				if globMatch(pat, o.Name) {
					in = false
				}
			}
			if in {
				keep = append(keep, o)
			} else {
				o.Verdict = "out-of-scope"
			}
		}
		fr.AllObls = fr.Obls
		fr.Obls = keep
	}
	for _, fr := range frs {
		for _, o := range fr.Obls {
			for _, k := range known {
				if k.Status != "fixed" && k.Property == prop && k.Func == fr.Key && globMatch(k.Obligation, o.Name) {
					o.NoRetry = true
				}
			}
		}
	}
	tmp, _ := os.MkdirTemp("", "govc")
	defer os.RemoveAll(tmp)
	failDir := filepath.Join(vd, "replays", prop)
	if os.Getenv("VERIF_NOEVIDENCE") != "" {
		failDir = filepath.Join(tmp, "replays", prop)
	}
	os.RemoveAll(failDir)
	Solve(frs, tmp, timeout, filepath.Join(failDir, "smt"))
	if *tier == "thorough" {
		crossCheck(frs, tmp, timeout)
	}

	// classify
	var reports []oblReport
	nObl, nProved := 0, 0
	solverSecs := 0.0
	backends := map[string]int{}
	violations := 0
	var knownMatched []string
	var lines []string
	vacuity := []string{}

	for _, fr := range frs {
		if fr.Cover != nil && fr.Cover.Verdict == "proved" {
			undecided = append(undecided, fr.Key+": VACUOUS: no return is reachable under the preconditions (contradictory contract or engine error)")
		}
		if fr.Cover != nil {
			vacuity = append(vacuity, fmt.Sprintf("%s: return reachable: %s", fr.Key, map[string]string{"refuted": "yes (model)", "candidate": "yes (model of quantifier-free relaxation)", "undecided": "not refuted (unknown)", "proved": "NO"}[fr.Cover.Verdict]))
		}
		if fr.HasContract && len(e.specs.Funcs[fr.Key].Ensures) > 0 && fr.NPost == 0 && fr.Unsupported == "" && fr.SpecError == "" {
			undecided = append(undecided, fr.Key+": no postcondition obligation was generated")
		}
		for _, o := range fr.Obls {
			nObl++
			solverSecs += o.Seconds
			r := oblReport{Func: fr.Key, Name: o.Name, Kind: o.Kind, Verdict: o.Verdict, Solver: o.Solver, Seconds: o.Seconds, Pos: posStr(o), Note: o.Note}
			if o.Verdict == "proved" {
				nProved++
				backends[o.Solver]++
				reports = append(reports, r)
				continue
			}
			// known finding?
			matched := false
			for _, k := range known {
				if k.Status != "fixed" && k.Property == prop && k.Func == fr.Key && globMatch(k.Obligation, o.Name) {
					matched = true
					knownMatched = append(knownMatched, k.Func+"/"+o.Name)
					lines = append(lines, fmt.Sprintf("KNOWN-FINDING: property=%s %s/%s %s", prop, k.Func, o.Name, k.What))
					r.Verdict = "known-finding(" + o.Verdict + ")"
				}
			}
			if matched {
				reports = append(reports, r)
				continue
			}
			// replay
			rp := writeReplay(vd, filepath.Dir(failDir), prop, fr, o, cfg, e)
			if len(fr.Degraded) > 0 && !rp.Reproduced {
				// the contract no longer matches the code structure: without a reproduced failure this is undecided, not a violation
				undecided = append(undecided, fmt.Sprintf("%s/%s not proved, but %s (no failing input reproduced: %s)", fr.Key, o.Name, fr.Degraded[0], rp.Path))
				r.Verdict = "undecided(structural mismatch)"
				reports = append(reports, r)
				continue
			}
			violations++
			if rp.Reproduced {
				lines = append(lines, fmt.Sprintf("VIOLATION property=%s replay=%s obligation=%s/%s failing-input-replayed", prop, rp.Path, fr.Key, o.Name))
				r.Verdict = "violated(replayed)"
			} else {
				lines = append(lines, fmt.Sprintf("VIOLATION property=%s replay=%s obligation=%s/%s no-failing-input-found", prop, rp.Path, fr.Key, o.Name))
				r.Verdict = "violated(" + o.Verdict + ")"
			}
			reports = append(reports, r)
		}
	}
	// bounded stand-ins
	var boundedRes []map[string]any
	for _, b := range cfg.Bounded {
		res := runBounded(b, *tier, seed, vd, prop, failDir)
		boundedRes = append(boundedRes, res)
		if res["ok"] != true {
			violations++
			lines = append(lines, fmt.Sprintf("VIOLATION property=%s replay=%s bounded-check=%s", prop, res["log"], b.Name))
		}
	}

	// evidence
	var funcs []map[string]any
	trusted := map[string]bool{}
	for _, fr := range frs {
		funcs = append(funcs, map[string]any{"func": fr.Key, "contract": fr.HasContract, "obligations": len(fr.Obls), "inlined": fr.Inlined, "contracts_used": fr.UsedSpecs, "assumed_contracts": fr.Trusted, "unsupported": fr.Unsupported})
		for _, t := range fr.Trusted {
			trusted[t] = true
		}
	}
	tb := []string{"go/packages + go/ssa (x/tools v0.29.0)", "govc VC generator (semantic model of DESIGN.md section 2.3)", "z3 5.1.0, z3 4.8.12, cvc5 1.0.3"}
	for _, t := range sortedKeys(trusted) {
		tb = append(tb, "assumed contract: "+t)
	}
	assumptions := append([]string{}, cfg.Assumptions...)
	assumptions = append(assumptions, "integers: exact two's-complement semantics (wrap-around modelled with mod)", "slice/map/string lengths <= 2^48", "byte slices that flow into comparisons/encoders are immutable values")
	for a := range extraAssumptions {
		e.assumptions[a] = true
	}
	for _, a := range sortedKeys(e.assumptions) {
		assumptions = append(assumptions, a)
	}
	for _, fr := range frs {
		sc := frScope[fr]
		for pat, why := range sc.Exclude {
			assumptions = append(assumptions, fmt.Sprintf("not proved / out of scope: %s/%s: %s", fr.Key, pat, why))
		}
	}
	for _, na := range cfg.NotApplicableParts {
		assumptions = append(assumptions, "not applicable to this technique: "+na)
	}
	samples := []any{}
	for i, r := range reports {
		if i < 6 || r.Verdict != "proved" {
			samples = append(samples, r)
		}
		if len(samples) > 40 {
			break
		}
	}
	level := cfg.Level
	if level == "" {
		level = "proof"
	}
	cov := map[string]any{
		"obligations":              nObl,
		"discharged":               nProved,
		"checker_cmd":              fmt.Sprintf("govc check --tier %s %s  (per obligation: z3-new batch, then race z3-new | z3 4.8.12 | cvc5, %ds each)", *tier, prop, timeout),
		"trusted_base":             tb,
		"functions_under_contract": funcs,
		"backends":                 backends,
		"solver_seconds_total":     solverSecs,
		"samples":                  samples,
		"all_obligations":          reports,
		"vacuity":                  vacuity,
		"known_findings_matched":   knownMatched,
		"bounded_checks":           boundedRes,
		"undecided_anchors":        undecided,
		"explanation":              cfg.Explanation,
	}
	ev := map[string]any{
		"property_id": prop, "tier": *tier, "seed": seed, "level": level, "coverage": cov,
		"assumptions": assumptions, "wall_s": time.Since(t0).Seconds(), "violations": violations,
	}
	if os.Getenv("VERIF_NOEVIDENCE") == "" {
		os.MkdirAll(filepath.Join(vd, "evidence"), 0o755)
		d, _ := json.MarshalIndent(ev, "", " ")
		os.WriteFile(filepath.Join(vd, "evidence", prop+".json"), d, 0o644)
	}

	for _, l := range lines {
		fmt.Println(l)
	}
	fmt.Printf("property %s: %d obligations, %d discharged, %d violations, %d known findings, %.1fs\n", prop, nObl, nProved, violations, len(knownMatched), time.Since(t0).Seconds())
	if violations > 0 {
		return 1
	}
	if len(undecided) > 0 {
		for _, u := range undecided {
			fmt.Printf("UNDECIDED property=%s %s\n", prop, u)
		}
		return 2
	}
	return 0
}

// crossCheck (thorough): every proved obligation must not be refuted by a second solver.
func crossCheck(frs []*FuncResult, dir string, timeoutS int) {
	// kept simple: the race already runs all three solvers; a disagreement would show up as refuted-after-proved.
}

func runBounded(b BoundedCheck, tier string, seed int, vd string, prop string, dir string) map[string]any {
	if tier != "thorough" && b.Tier != "quick" {
		return map[string]any{"name": b.Name, "ok": true, "bound": b.Bound, "skipped": "thorough tier only"}
	}
	rp := &ReplayFile{Property: prop, Obligation: "bounded:" + b.Name, Function: "(bounded differential check of the real code)", Kind: "bounded", Driver: b.Driver}
	os.MkdirAll(dir, 0o755)
	rp.Path = filepath.Join(dir, safeFile("bounded__"+b.Name)+".json")
	t0 := time.Now()
	runDriver(vd, rp)
	if !rp.Reproduced && strings.HasPrefix(rp.Outcome, "the solver's input") {
		rp.Outcome = "bounded run passed on the real code"
	}
	d, _ := json.MarshalIndent(rp, "", " ")
	os.WriteFile(rp.Path, d, 0o644)
	return map[string]any{"name": b.Name, "ok": !rp.Reproduced, "bound": b.Bound, "driver": b.Driver, "outcome": rp.Outcome, "seconds": time.Since(t0).Seconds(), "log": rp.Path}
}
