package main

import (
	"sync/atomic"
	"fmt"
	"os"
	"go/types"
	"runtime/debug"
	"strings"

	"golang.org/x/tools/go/ssa"
)

// FuncResult is what verifying one function produced.
var funcResultSeq int64

type FuncResult struct {
	Seq int64 // distinguishes two verifications of the same function in one run (scratch file names)
	Key         string
	Obls        []*Obligation
	Unsupported string // non-empty: the function left the supported subset; nothing is proved
	SpecError   string
	Inlined     []string
	UsedSpecs   []string
	Trusted     []string
	Unknown     []string
	Notes       []string
	Script      string // background script (prelude + decls), asserts separately
	Asserts     []string
	Decls       string
	Cover       *Obligation // reachability of a normal return under the preconditions
	Observes    []ObserveTerm
	HasContract bool
	NPost       int
	AllObls     []*Obligation
	Degraded    []string // loop clauses that no longer resolve (structural change): failed obligations need replay confirmation
	OblAssumes  map[int]bool // indexes of asserts that merely assume an obligation after it was recorded
}

type ObserveTerm struct {
	Name string
	Term string
	Sort Sort
}

func (p *Program) funcByKeyAny(key string) *ssa.Function {
	if fn, ok := p.funcByKey[key]; ok {
		return fn
	}
	return p.lookupExternal(key)
}

// lookupExternal resolves keys of functions outside the module: "bytes.Compare", "sync.(*RWMutex).Lock",
// "github.com/ipfs/go-cid.(Cid).String".
func (p *Program) lookupExternal(key string) *ssa.Function {
	if fn, ok := p.funcByKey["ext:"+key]; ok {
		return fn
	}
	var pkgPath, rest string
	if i := strings.Index(key, ".("); i >= 0 {
		pkgPath, rest = key[:i], key[i+1:]
	} else if i := strings.LastIndex(key, "."); i >= 0 {
		pkgPath, rest = key[:i], key[i+1:]
	} else {
		return nil
	}
	sp := p.SSAPkgs[pkgPath]
	if sp == nil {
		return nil
	}
	var fn *ssa.Function
	if strings.HasPrefix(rest, "(") {
		j := strings.Index(rest, ")")
		recv, name := rest[1:j], rest[j+2:]
		ptr := strings.HasPrefix(recv, "*")
		recv = strings.TrimPrefix(recv, "*")
		tn, _ := sp.Pkg.Scope().Lookup(recv).(*types.TypeName)
		if tn == nil {
			return nil
		}
		var T types.Type = tn.Type()
		if ptr {
			T = types.NewPointer(T)
		}
		fn = p.Prog.LookupMethod(T, sp.Pkg, name)
	} else {
		fn = sp.Func(rest)
	}
	if fn != nil {
		p.funcByKey["ext:"+key] = fn
	}
	return fn
}

func (e *Engine) ifaceMethod(key string) *types.Func {
	if !strings.HasPrefix(key, "iface:") {
		return nil
	}
	// iface:(pkg.Iface).Method
	s := strings.TrimPrefix(key, "iface:")
	i := strings.LastIndex(s, ").")
	if i < 0 || !strings.HasPrefix(s, "(") {
		return nil
	}
	tn, mname := s[1:i], s[i+2:]
	j := strings.LastIndex(tn, ".")
	if j < 0 {
		return nil
	}
	pkgName, typ := tn[:j], tn[j+1:]
	for path, pp := range e.prog.AllPkgs {
		if shortPkg(path) == pkgName || path == pkgName {
			if o, ok := pp.Types.Scope().Lookup(typ).(*types.TypeName); ok {
				if it, ok := o.Type().Underlying().(*types.Interface); ok {
					for k := 0; k < it.NumMethods(); k++ {
						if it.Method(k).Name() == mname {
							return it.Method(k)
						}
					}
				}
			}
		}
	}
	return nil
}

// VerifyFunc generates all obligations of one function.
func (e *Engine) VerifyFunc(fn *ssa.Function, spec *FuncSpec, lockMode bool) (res *FuncResult) {
	key := FuncKey(fn)
	res = &FuncResult{Key: key, HasContract: spec != nil, Seq: atomic.AddInt64(&funcResultSeq, 1)}
	fx := e.newFX(fn, spec)
	fx.lockMode = lockMode
	defer func() {
		if r := recover(); r != nil {
			switch x := r.(type) {
			case unsupported:
				res.Unsupported = x.msg
			case specError:
				res.SpecError = x.msg
				if os.Getenv("GOVC_DEBUG") != "" {
					res.SpecError += "\n" + string(debug.Stack())
				}
			default:
				res.Unsupported = fmt.Sprintf("engine panic: %v\n%s", r, debug.Stack())
			}
		}
		res.Obls = fx.obls
		res.Inlined = sortedKeys(fx.inlined)
		res.UsedSpecs = sortedKeys(fx.usedSpec)
		res.Trusted = sortedKeys(fx.trusted)
		res.Unknown = fx.unknown
		res.Degraded = fx.degraded
		res.Notes = fx.notes
		res.Decls = e.Prelude() + fx.ctx.Script("") + fx.relevantAxioms()
		res.Asserts = fx.ctx.asserts
	}()
	fx.entry = &State{vars: map[string]string{}}
	fx.nowEntry = "$now@entry"
	fx.sv(fx.entry, "$now", SInt)
	fx.ctx.Assert("(>= $now@entry 0)")
	if lockMode {
		acq0 := fx.sv(fx.entry, "$acq", ArrS(SRef, SInt))
		fx.ctx.Assert(fmt.Sprintf("(forall ((o Ref)) (! (= (select %s o) 0) :pattern ((select %s o))))", acq0, acq0))
	}
	st := fx.entry.clone()
	a := &act{fx: fx, fn: fn, id: 0, top: true, vals: map[ssa.Value]Val{}, spec: spec}
	fx.stack = []*ssa.Function{fn}
	qn := 0
	env := &SEnv{vars: map[string]Val{}, nowOld: fx.nowEntry, qn: &qn}
	if spec != nil {
		env.pkg = spec.Pkg
	} else if fn.Pkg != nil {
		env.pkg = fn.Pkg.Pkg.Path()
	}
	declare := func(name string, t types.Type, i int) Val {
		srt := e.SortOf(t)
		c := fx.ctx.Declare("p!"+name, srt)
		v := Val{T: c, S: srt, GT: t}
		if f := a.typeFacts(c, t); f != "true" {
			fx.ctx.Assert(f)
		}
		switch srt {
		case SRef:
			fx.ctx.Assert(fmt.Sprintf("(< (epoch %s) %s)", c, fx.nowEntry))
		case SIface:
			fx.ctx.Assert(fmt.Sprintf("(< (epoch (iref %s)) %s)", c, fx.nowEntry))
			if e.isClosedIface(t) {
				var alts []string
				alts = append(alts, Eq(App("itag", c), "0"))
				for _, ct := range e.implementers(t) {
					alts = append(alts, Eq(App("itag", c), fx.ctx.Tag(typeName(ct))))
				}
				fx.ctx.Assert(Or(alts...))
				e.assume("closed world: dynamic type of a non-nil " + typeName(t) + " is one of the module's implementers")
			}
			fx.ctx.Assert(Imp(Eq(App("itag", c), "0"), Eq(c, "nil!iface")))
		case SSlice:
			fx.ctx.Assert(fmt.Sprintf("(< (epoch (sbase %s)) %s)", c, fx.nowEntry))
		}
		res.Observes = append(res.Observes, ObserveTerm{Name: name, Term: c, Sort: srt})
		return v
	}
	res.Observes = append(res.Observes, ObserveTerm{Name: "$null", Term: "null", Sort: SRef})
	for i, p := range fn.Params {
		v := declare(p.Name(), p.Type(), i)
		a.vals[p] = v
		env.vars[p.Name()] = v
		env.vars[fmt.Sprintf("$%d", i)] = v
	}
	for i, fv := range fn.FreeVars {
		v := declare("free!"+fv.Name(), fv.Type(), i)
		if v.S == SRef {
			fx.ctx.Assert(Not(Eq(v.T, "null"))) // address of a captured variable
		}
		a.vals[fv] = v
		env.vars[fv.Name()] = v
	}
	// global axioms
	for _, ax := range e.specs.Axioms {
		aenv := &SEnv{vars: map[string]Val{}, pkg: e.specs.AxiomPkg[ax], nowOld: fx.nowEntry, qn: &qn}
		fx.axioms = append(fx.axioms, fx.specTerm(ax.X, aenv, fx.entry, fx.entry, aenv.pkg))
	}
	if spec != nil {
		reqs := spec.Requires
		if lockMode {
			reqs = append(append([]*Clause{}, reqs...), spec.LockRequires...)
		}
		for _, r := range reqs {
			t := fx.specTerm(r.X, env, st, fx.entry, spec.Pkg)
			fx.ctx.Assert(t)
			fx.noteKnown(t)
		}
		for _, o := range spec.Observe {
			v := fx.specVal(o.X, env, st, fx.entry)
			res.Observes = append(res.Observes, ObserveTerm{Name: o.Text, Term: v.T, Sort: v.S})
		}
	}
	if spec != nil && spec.Induction != nil {
		fx.inductionHypothesis(a, fn, spec, env, st)
	}
	nReq := len(fx.ctx.asserts)
	a.runBody("true", st)
	// postconditions at every return
	var retGuards []string
	for ri, r := range a.rets {
		retGuards = append(retGuards, r.guard)
		var out Val
		switch len(r.vals) {
		case 0:
			out = Val{}
		case 1:
			out = r.vals[0]
			out.GT = fn.Signature.Results().At(0).Type()
		default:
			out = Val{S: "Tuple", Tuple: r.vals}
			for i := range out.Tuple {
				out.Tuple[i].GT = fn.Signature.Results().At(i).Type()
			}
		}
		var args []Val
		for _, p := range fn.Params {
			args = append(args, a.vals[p])
		}
		renv := a.callEnv(fn, fn.Signature, args, out)
		for _, fv := range fn.FreeVars {
			renv.vars[fv.Name()] = a.vals[fv]
		}
		renv.nowOld = fx.nowEntry
		if spec != nil {
			renv.pkg = spec.Pkg
			for _, ul := range spec.UseLemmas {
				fx.ctx.Assert(Imp(r.guard, fx.lemmaInstance(a, ul, renv, r.st)))
			}
			enss := spec.Ensures
			if lockMode {
				enss = append(append([]*Clause{}, enss...), spec.LockEnsures...)
			}
			for i, en := range enss {
				t := fx.specTerm(en.X, renv, r.st, fx.entry, spec.Pkg)
				name := en.Name
				if name == "" {
					name = normSpace(en.Text)
				}
				_ = i
				o := fx.addOblAt("post", name, r.guard, t, r.pos, fmt.Sprintf("postcondition at return %d", ri))
				res.NPost++
				if o != nil {
					// later postconditions of the same return may use the earlier ones
					fx.ctx.Assert(Imp(r.guard, t))
				}
			}
			if !spec.Lemma {
				fx.frameObls(spec, env, r, ri)
			}
		}
		if lockMode && spec != nil {
			h := fx.sv(r.st, "held", ArrS(SRef, SInt))
			fx.addOblAt("lock-fresh", "objects allocated by the call have free locks", r.guard,
				fmt.Sprintf("(forall ((o Ref)) (=> (and (>= (epoch o) %s) (< (epoch o) %s)) (= (select %s o) 0)))", fx.nowEntry, fx.now(r.st), h), r.pos, "a lock of an object created by the function is still held on return")
		}
		if lockMode {
			held := fx.sv(r.st, "held", ArrS(SRef, SInt))
			held0 := fx.sv(fx.entry, "held", ArrS(SRef, SInt))
			declared := false
			if spec != nil {
				for _, m := range spec.Modifies {
					if strings.HasPrefix(m.Text, "held") {
						declared = true
					}
				}
			}
			if !declared && held != held0 {
				fx.addOblAt("lock-balance", "locks released on return", r.guard, fmt.Sprintf("(forall ((o Ref)) (=> (< (epoch o) %s) (= (select %s o) (select %s o))))", fx.nowEntry, held, held0), r.pos, "a lock acquired by the function is still held (or one it did not hold was released)")
			}
		}
	}
	if len(a.rets) > 0 {
		res.Cover = &Obligation{Func: key, Name: "cover:return", Kind: "cover", Guard: "true", Goal: Not(Or(retGuards...)), NAsserts: len(fx.ctx.asserts)}
		res.OblAssumes = fx.oblAssumes
	}
	_ = nReq
	return res
}

// addOblAt is addObl without the "assume afterwards" (postconditions of different returns are independent).
func (fx *FX) addOblAt(kind, name, guard, goal string, pos interface{ IsValid() bool }, note string) *Obligation {
	if goal == "true" || guard == "false" {
		return nil
	}
	full := kind + ":" + name
	fx.names[full]++
	if n := fx.names[full]; n > 1 {
		// several returns share one named obligation: keep one name, conjoin by listing separately
		full = fmt.Sprintf("%s@ret%d", full, n)
	}
	o := &Obligation{Func: fx.key, Name: full, Kind: kind, Guard: guard, Goal: fx.residualGoal(goal), NAsserts: len(fx.ctx.asserts), Note: note}
	if o.Goal == "true" {
		o.Verdict, o.Solver = "proved", "syntactic(identical to an assumed fact)"
	}
	fx.obls = append(fx.obls, o)
	return o
}

// frameObls: everything not listed in modifies (and allocated before entry) is unchanged at return.
func (fx *FX) frameObls(spec *FuncSpec, env *SEnv, r retPoint, ri int) {
	items := fx.modItems(spec.Modifies, env, fx.entry)
	for _, name := range sortedKeys(fx.modified) {
		if strings.HasPrefix(name, "$") {
			continue
		}
		srt := fx.svSort[name]
		cur := fx.sv(r.st, name, srt)
		old := fx.sv(fx.entry, name, srt)
		if cur == old {
			continue
		}
		whole := false
		var excl []string
		for _, it := range items {
			if it.heap != name {
				continue
			}
			if it.obj == "" {
				whole = true
			} else {
				excl = append(excl, Not(Eq("o", it.obj)))
			}
		}
		if whole {
			continue
		}
		k, _, isArr := splitArr(srt)
		var goal string
		if !isArr {
			goal = Eq(cur, old)
		} else {
			cond := And(excl...)
			if k == SRef {
				cond = And(fmt.Sprintf("(< (epoch o) %s)", fx.nowEntry), "(not (= o null))", cond)
			}
			goal = fmt.Sprintf("(forall ((o %s)) (=> %s (= (select %s o) (select %s o))))", k, cond, cur, old)
		}
		fx.addOblAt("frame", name, r.guard, goal, r.pos, "location outside the modifies clause changed")
	}
}

// relevantAxioms keeps the global axioms whose spec functions occur in the function's own script.
func (fx *FX) relevantAxioms() string {
	var text strings.Builder
	for _, a := range fx.ctx.asserts {
		text.WriteString(a)
		text.WriteByte(' ')
	}
	for _, o := range fx.obls {
		text.WriteString(o.Goal)
		text.WriteByte(' ')
	}
	body := text.String()
	// closure: an axiom selected for one of its functions makes the other functions it mentions relevant too
	used := make([]bool, len(fx.axioms))
	for changed := true; changed; {
		changed = false
		for i, ax := range fx.axioms {
			if used[i] {
				continue
			}
			for _, f := range fx.eng.specs.Funs {
				if strings.Contains(ax, "("+f.Name+" ") && (strings.Contains(body, "("+f.Name+" ") || strings.Contains(body, " "+f.Name+")")) {
					used[i] = true
					changed = true
					body += " " + ax
					break
				}
			}
		}
	}
	var out strings.Builder
	for i, ax := range fx.axioms {
		if used[i] {
			fmt.Fprintf(&out, "(assert %s)\n", ax)
		}
	}
	return out.String()
}

// inductionHypothesis: for a lemma function with an empty body and "induction x by m", assume the lemma for every x'
// with 0 <= m(x') < m(x).  Sound by well-founded induction on the integer measure (the body changes no state, so the
// hypothesis and the conclusion speak about the same state).
func (fx *FX) inductionHypothesis(a *act, fn *ssa.Function, spec *FuncSpec, env *SEnv, st *State) {
	if !spec.Lemma {
		specErrf("induction on a function that is not a lemma")
	}
	for _, b := range fn.Blocks {
		for _, in := range b.Instrs {
			switch in.(type) {
			case *ssa.Return, *ssa.DebugRef:
			default:
				specErrf("induction lemma %s must have an empty body (found %T)", spec.Key, in)
			}
		}
	}
	cur, ok := env.vars[spec.Induction.Var]
	if !ok {
		specErrf("induction variable %s is not a parameter", spec.Induction.Var)
	}
	bv := Val{T: "ih!" + spec.Induction.Var, S: cur.S, GT: cur.GT}
	env2 := env.with(spec.Induction.Var, bv)
	var reqs, enss []string
	ivar := map[string]bool{spec.Induction.Var: true}
	for _, r := range spec.Requires {
		if !sxMentions(r.X, ivar) {
			continue // holds already (assumed as a precondition), and does not change with the induction variable
		}
		reqs = append(reqs, fx.specTerm(r.X, env2, st, fx.entry, spec.Pkg))
	}
	for _, en := range spec.Ensures {
		enss = append(enss, fx.specTerm(en.X, env2, st, fx.entry, spec.Pkg))
	}
	m1 := fx.specVal(spec.Induction.Measure, env2, st, fx.entry).T
	m0 := fx.specVal(spec.Induction.Measure, env, st, fx.entry).T
	fx.ctx.Assert(fmt.Sprintf("(forall ((%s %s)) (=> (and (<= 0 %s) (< %s %s) %s) %s))", bv.T, bv.S, m1, m1, m0, And(reqs...), And(enss...)))
	fx.eng.assume("well-founded induction on an integer measure for lemma " + spec.Key + " (the lemma body is empty)")
}

// lemmaInstance: the statement of a proved lemma function, universally quantified over its "_" arguments, at a state.
func (fx *FX) lemmaInstance(a *act, ul *UseLemma, env *SEnv, st *State) string {
	e := fx.eng
	lsp := e.specs.Funcs[ul.Key]
	lfn := e.prog.funcByKeyAny(ul.Key)
	if lsp == nil || lfn == nil || !lsp.Lemma {
		specErrf("uselemma: %s is not a lemma function under contract", ul.Key)
	}
	if len(ul.Args) != len(lfn.Params) {
		specErrf("uselemma %s: %d arguments, want %d", ul.Key, len(ul.Args), len(lfn.Params))
	}
	for _, b := range lfn.Blocks {
		for _, in := range b.Instrs {
			switch in.(type) {
			case *ssa.Return, *ssa.DebugRef:
			default:
				specErrf("uselemma %s: only lemmas with an empty body can be instantiated at a state", ul.Key)
			}
		}
	}
	lenv := &SEnv{vars: map[string]Val{}, qn: env.qn, depth: env.depth, pkg: lsp.Pkg, nowOld: env.nowOld}
	var decls []string
	quantified := map[string]bool{}
	for i, p := range lfn.Params {
		if ul.Args[i] == nil {
			quantified[p.Name()] = true
			*env.qn++
			srt := e.SortOf(p.Type())
			name := fmt.Sprintf("%s!l%d", p.Name(), lenv.depth)
			lenv.depth++
			lenv.vars[p.Name()] = Val{T: name, S: srt, GT: p.Type()}
			decls = append(decls, fmt.Sprintf("(%s %s)", name, srt))
			continue
		}
		v := fx.specVal(ul.Args[i], env, st, fx.entry)
		if v.S == "Nil" {
			srt := e.SortOf(p.Type())
			v = Val{T: nilOf(srt), S: srt}
		}
		v.GT = p.Type()
		lenv.vars[p.Name()] = v
	}
	// hypotheses that do not mention a quantified argument are evaluated outside the quantifier, at the caller's binder
	// depth: they then are the very terms the caller has established, not alpha-variants the solver must re-derive
	outer := &SEnv{vars: lenv.vars, qn: env.qn, depth: env.depth, pkg: lsp.Pkg, nowOld: env.nowOld}
	var indep, reqs, enss []string
	for _, r := range lsp.Requires {
		if sxMentions(r.X, quantified) {
			reqs = append(reqs, fx.specTerm(r.X, lenv, st, fx.entry, lsp.Pkg))
		} else {
			indep = append(indep, fx.specTerm(r.X, outer, st, fx.entry, lsp.Pkg))
		}
	}
	for _, en := range lsp.Ensures {
		enss = append(enss, fx.specTerm(en.X, lenv, st, fx.entry, lsp.Pkg))
	}
	body := Imp(And(reqs...), And(enss...))
	fx.usedSpec[ul.Key] = true
	if len(decls) > 0 {
		body = fmt.Sprintf("(forall (%s) %s)", strings.Join(decls, " "), body)
	}
	return Imp(And(indep...), body)
}

// sxMentions reports whether a spec expression refers to one of the given identifiers.
func sxMentions(x *SX, names map[string]bool) bool {
	if x == nil {
		return false
	}
	if x.K == "id" && names[x.Name] {
		return true
	}
	for _, a := range x.A {
		if sxMentions(a, names) {
			return true
		}
	}
	for _, g := range x.Trig {
		for _, t := range g {
			if sxMentions(t, names) {
				return true
			}
		}
	}
	return false
}
