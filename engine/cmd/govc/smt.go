package main

import (
	"fmt"
	"sort"
	"strings"
)

// Sort is the text of an SMT-LIB sort.
type Sort string

const (
	SInt   Sort = "Int"
	SBool  Sort = "Bool"
	SRef   Sort = "Ref"
	SStr   Sort = "Str"
	SBytes Sort = "Bytes"
	SSlice Sort = "Slice"
	SIface Sort = "Iface"
	SCid   Sort = "Cid"
	SFn    Sort = "Fn"
	SUnit  Sort = "Unit"
)

func ArrS(k, v Sort) Sort { return Sort(fmt.Sprintf("(Array %s %s)", k, v)) }

// splitArr returns key and value sorts of an array sort.
func splitArr(s Sort) (Sort, Sort, bool) {
	t := string(s)
	if !strings.HasPrefix(t, "(Array ") {
		return "", "", false
	}
	t = t[len("(Array ") : len(t)-1]
	// first sort token
	depth := 0
	for i, c := range t {
		switch c {
		case '(':
			depth++
		case ')':
			depth--
		case ' ':
			if depth == 0 {
				return Sort(t[:i]), Sort(t[i+1:]), true
			}
		}
	}
	return "", "", false
}

// Ctx accumulates the SMT script of one function under verification.
type Ctx struct {
	decls    []string          // declarations in order
	declared map[string]bool   // names already declared
	asserts  []string          // background assertions (definitions, assumptions)
	fresh    map[string]int    // counters per prefix
	dtypes   map[string]bool   // declared datatypes
	strlits  map[string]string // literal -> constant
	strOrder []string
	tags     map[string]int // type string -> tag
	tagOrder []string
}

func NewCtx() *Ctx {
	return &Ctx{declared: map[string]bool{}, fresh: map[string]int{}, dtypes: map[string]bool{}, strlits: map[string]string{}, tags: map[string]int{}}
}

func quoteSym(s string) string {
	simple := true
	for _, c := range s {
		if !(c >= 'a' && c <= 'z' || c >= 'A' && c <= 'Z' || c >= '0' && c <= '9' || strings.ContainsRune("_!$.@%^&*-+<>=/?~", c)) {
			simple = false
			break
		}
	}
	if simple && s != "" && !(s[0] >= '0' && s[0] <= '9') {
		return s
	}
	s = strings.ReplaceAll(s, "|", "!")
	s = strings.ReplaceAll(s, "\\", "!")
	return "|" + s + "|"
}

func (c *Ctx) Declare(name string, s Sort) string {
	q := quoteSym(name)
	if !c.declared[q] {
		c.declared[q] = true
		c.decls = append(c.decls, fmt.Sprintf("(declare-const %s %s)", q, s))
	}
	return q
}

func (c *Ctx) DeclareFun(name string, args []Sort, ret Sort) string {
	q := quoteSym(name)
	if !c.declared[q] {
		c.declared[q] = true
		as := make([]string, len(args))
		for i, a := range args {
			as[i] = string(a)
		}
		c.decls = append(c.decls, fmt.Sprintf("(declare-fun %s (%s) %s)", q, strings.Join(as, " "), ret))
	}
	return q
}

func (c *Ctx) Raw(decl string) { c.decls = append(c.decls, decl) }

func (c *Ctx) Fresh(prefix string, s Sort) string {
	c.fresh[prefix]++
	return c.Declare(fmt.Sprintf("%s@%d", prefix, c.fresh[prefix]), s)
}

func (c *Ctx) Assert(t string) {
	if t == "true" {
		return
	}
	c.asserts = append(c.asserts, t)
}

func (c *Ctx) StrLit(s string) string {
	if s == "" {
		return "str!empty"
	}
	if v, ok := c.strlits[s]; ok {
		return v
	}
	name := fmt.Sprintf("strlit!%d", len(c.strlits))
	q := c.Declare(name, SStr)
	c.strlits[s] = q
	c.strOrder = append(c.strOrder, s)
	c.Assert(fmt.Sprintf("(= (strlen %s) %d)", q, len(s)))
	return q
}

func (c *Ctx) Tag(typ string) string {
	if _, ok := c.tags[typ]; !ok {
		c.tags[typ] = len(c.tags) + 1
		c.tagOrder = append(c.tagOrder, typ)
	}
	return fmt.Sprintf("%d", c.tags[typ])
}

// Script renders the background part of the script.
func (c *Ctx) Script(prelude string) string {
	var b strings.Builder
	b.WriteString(prelude)
	for _, d := range c.decls {
		b.WriteString(d)
		b.WriteByte('\n')
	}
	if len(c.strOrder) > 0 {
		names := []string{"str!empty"}
		for _, s := range c.strOrder {
			names = append(names, c.strlits[s])
		}
		if len(names) > 1 {
			fmt.Fprintf(&b, "(assert (distinct %s))\n", strings.Join(names, " "))
		}
	}
	return b.String()
}

// ---- term helpers ----

func And(ts ...string) string {
	var out []string
	for _, t := range ts {
		if t == "true" || t == "" {
			continue
		}
		if t == "false" {
			return "false"
		}
		out = append(out, t)
	}
	switch len(out) {
	case 0:
		return "true"
	case 1:
		return out[0]
	}
	return "(and " + strings.Join(out, " ") + ")"
}

func Or(ts ...string) string {
	var out []string
	for _, t := range ts {
		if t == "false" || t == "" {
			continue
		}
		if t == "true" {
			return "true"
		}
		out = append(out, t)
	}
	switch len(out) {
	case 0:
		return "false"
	case 1:
		return out[0]
	}
	return "(or " + strings.Join(out, " ") + ")"
}

func Not(t string) string {
	switch t {
	case "true":
		return "false"
	case "false":
		return "true"
	}
	if strings.HasPrefix(t, "(not ") && balanced(t[5:len(t)-1]) {
		return t[5 : len(t)-1]
	}
	return "(not " + t + ")"
}

func balanced(s string) bool {
	d := 0
	inq := false
	for _, c := range s {
		if c == '|' {
			inq = !inq
		}
		if inq {
			continue
		}
		if c == '(' {
			d++
		} else if c == ')' {
			d--
			if d < 0 {
				return false
			}
		}
	}
	return d == 0
}

func Imp(a, b string) string {
	if a == "true" {
		return b
	}
	if a == "false" || b == "true" {
		return "true"
	}
	return "(=> " + a + " " + b + ")"
}

func Eq(a, b string) string {
	if a == b {
		return "true"
	}
	return "(= " + a + " " + b + ")"
}

func Ite(c, a, b string) string {
	if c == "true" {
		return a
	}
	if c == "false" {
		return b
	}
	if a == b {
		return a
	}
	return "(ite " + c + " " + a + " " + b + ")"
}

func Sel(a, i string) string      { return "(select " + a + " " + i + ")" }
func Store(a, i, v string) string { return "(store " + a + " " + i + " " + v + ")" }
func App(f string, args ...string) string {
	if len(args) == 0 {
		return f
	}
	return "(" + f + " " + strings.Join(args, " ") + ")"
}

func IntLit(n int64) string {
	if n < 0 {
		if n == -9223372036854775808 {
			return "(- 9223372036854775808)"
		}
		return fmt.Sprintf("(- %d)", -n)
	}
	return fmt.Sprintf("%d", n)
}

func sortedKeys[V any](m map[string]V) []string {
	ks := make([]string, 0, len(m))
	for k := range m {
		ks = append(ks, k)
	}
	sort.Strings(ks)
	return ks
}

// The fixed prelude: sorts and helper functions shared by every query.
const basePrelude = `(set-logic ALL)
(declare-sort Ref 0)
(declare-sort Str 0)
(declare-sort Bytes 0)
(declare-sort Cid 0)
(declare-sort Fn 0)
(declare-sort Unit 0)
(declare-datatypes ((Slice 0)) (((mk-slice (sbase Ref) (soff Int) (slen Int)))))
(declare-datatypes ((Iface 0)) (((mk-iface (itag Int) (iref Ref)))))
(declare-const null Ref)
(declare-const cid!undef Cid)
(declare-const str!empty Str)
(declare-fun strlen (Str) Int)
(declare-fun strcat (Str Str) Str)
(declare-fun byteslen (Bytes) Int)
(declare-fun bytesOf (Slice) Bytes)
(declare-fun str.ofbytes (Bytes) Str)
(declare-fun bytes.ofstr (Str) Bytes)
(declare-fun epoch (Ref) Int)
(declare-fun sidx (Slice Int) Int)
(declare-fun sub (Ref Int) Ref)
(declare-fun sub.base (Ref) Ref)
(declare-fun sub.idx (Ref) Int)
(declare-fun root (Ref) Ref)
(declare-fun f64.ofint (Int) Real)
(declare-fun f64.toint (Real) Int)
(declare-fun f64.sub (Real Real) Real)
(declare-fun f64.add (Real Real) Real)
(declare-fun f64.mul (Real Real) Real)
(declare-fun f64.div (Real Real) Real)
(declare-fun cid.str (Cid) Str)
(declare-fun cid.ofstr (Str) Cid)
(define-fun nil!slice () Slice (mk-slice null 0 0))
(define-fun nil!iface () Iface (mk-iface 0 null))
(define-fun wrapS64 ((x Int)) Int (ite (and (<= (- 9223372036854775808) x) (<= x 9223372036854775807)) x (- (mod (+ x 9223372036854775808) 18446744073709551616) 9223372036854775808)))
(define-fun wrapU64 ((x Int)) Int (ite (and (<= 0 x) (<= x 18446744073709551615)) x (mod x 18446744073709551616)))
(define-fun wrapS32 ((x Int)) Int (ite (and (<= (- 2147483648) x) (<= x 2147483647)) x (- (mod (+ x 2147483648) 4294967296) 2147483648)))
(define-fun wrapU32 ((x Int)) Int (ite (and (<= 0 x) (<= x 4294967295)) x (mod x 4294967296)))
(define-fun wrapS16 ((x Int)) Int (- (mod (+ x 32768) 65536) 32768))
(define-fun wrapU16 ((x Int)) Int (mod x 65536))
(define-fun wrapS8 ((x Int)) Int (- (mod (+ x 128) 256) 128))
(define-fun wrapU8 ((x Int)) Int (mod x 256))
(define-fun sign ((x Int)) Int (ite (< x 0) (- 1) (ite (> x 0) 1 0)))
(define-fun abs! ((x Int)) Int (ite (< x 0) (- x) x))
(define-fun min! ((x Int) (y Int)) Int (ite (< x y) x y))
(define-fun max! ((x Int) (y Int)) Int (ite (< x y) y x))
(define-fun tdiv ((x Int) (y Int)) Int (ite (>= x 0) (ite (> y 0) (div x y) (- (div x (- y)))) (ite (> y 0) (- (div (- x) y)) (div (- x) (- y)))))
(define-fun tmod ((x Int) (y Int)) Int (- x (* y (tdiv x y))))
(assert (forall ((s Str)) (! (>= (strlen s) 0) :pattern ((strlen s)))))
(assert (= (strlen str!empty) 0))
(assert (= (epoch null) (- 1)))
(assert (forall ((s Str)) (! (=> (= (strlen s) 0) (= s str!empty)) :pattern ((strlen s)))))
(assert (forall ((b Bytes)) (! (>= (byteslen b) 0) :pattern ((byteslen b)))))
(assert (forall ((b Bytes)) (! (= (bytes.ofstr (str.ofbytes b)) b) :pattern ((str.ofbytes b)))))
(assert (forall ((s Str)) (! (= (str.ofbytes (bytes.ofstr s)) s) :pattern ((bytes.ofstr s)))))
(assert (forall ((s Str)) (! (= (byteslen (bytes.ofstr s)) (strlen s)) :pattern ((bytes.ofstr s)))))
(assert (forall ((s Slice)) (! (=> (>= (slen s) 0) (= (byteslen (bytesOf s)) (slen s))) :pattern ((bytesOf s)))))
(assert (forall ((s Slice) (i Int)) (! (= (sidx s i) (+ (soff s) i)) :pattern ((sidx s i)))))
(assert (forall ((r Ref) (k Int)) (! (and (= (sub.base (sub r k)) r) (= (sub.idx (sub r k)) k) (not (= (sub r k) null)) (= (epoch (sub r k)) (epoch r)) (= (root (sub r k)) (root r))) :pattern ((sub r k)))))
(assert (forall ((c Cid)) (! (= (cid.ofstr (cid.str c)) c) :pattern ((cid.str c)))))
(assert (forall ((x Int) (y Int)) (! (=> (<= x y) (<= (f64.ofint x) (f64.ofint y))) :pattern ((f64.ofint x) (f64.ofint y)))))
(assert (forall ((x Int)) (! (=> (and (<= (- 9007199254740992) x) (<= x 9007199254740992)) (= (f64.ofint x) (to_real x))) :pattern ((f64.ofint x)))))
(assert (forall ((a Real) (b Real)) (! (and (= (= (f64.sub a b) 0.0) (= a b)) (= (< (f64.sub a b) 0.0) (< a b))) :pattern ((f64.sub a b)))))
(assert (forall ((x Int)) (! (=> (and (<= (- 9007199254740992) x) (<= x 9007199254740992)) (= (f64.toint (to_real x)) x)) :pattern ((f64.toint (to_real x))))))
`

// flattenAnd splits a term into its top-level conjuncts.
func flattenAnd(t string) []string {
	t = strings.TrimSpace(t)
	if !strings.HasPrefix(t, "(and ") {
		return []string{t}
	}
	inner := t[5 : len(t)-1]
	var out []string
	for _, p := range splitSexprs(inner) {
		out = append(out, flattenAnd(p)...)
	}
	return out
}
