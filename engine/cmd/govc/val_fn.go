package main

import (
	"golang.org/x/tools/go/ssa"
)

func (fx *FX) fnNonNil(v ssa.Value) {}

// globalNeverStored: no module function other than package initialisers stores to the global.
func (e *Engine) globalNeverStored(g *ssa.Global) bool {
	if r, ok := e.globalStored[g]; ok {
		return !r
	}
	stored := false
	for _, fn := range e.prog.ModFuncs {
		if fn.Name() == "init" {
			continue
		}
		for _, b := range fn.Blocks {
			for _, in := range b.Instrs {
				if st, ok := in.(*ssa.Store); ok && st.Addr == g {
					stored = true
				}
			}
		}
	}
	if e.globalStored == nil {
		e.globalStored = map[*ssa.Global]bool{}
	}
	e.globalStored[g] = stored
	return !stored
}
